package c18

// Engine "cli": the ways a USER gets a tab_list.  The other engines reach the
// listing function through GenFuncList and Converter.From in process; here the
// real programs are built and run:
//
//  (1) `curlrevshell -ctrl-i SRC -print-ctrl-i` (what Tab/Ctrl+I would send),
//  (2) the real curlrevshell on a pty with -ctrl-i SRC and an attached fake
//      shell: Tab / Ctrl+I sends the payload, the bytes the shell RECEIVES are
//      the payload (again after the source has changed: it is re-read),
//  (3) the shellfuncsfile tool with one, two and several sources (files and
//      directories mixed, any order, the same source twice), with and without
//      -no-list-function,
//
// each under a matrix of the program's other documented options (alone and in
// pairs by index).  Every payload so obtained is sourced alone under dash /
// bash / bash --posix and judged by the same oracle as everywhere: tab_list
// must print exactly the rows of ALL '# TABDOC:' lines of the whole payload.

import (
	"fmt"
	"io"
	"math/rand/v2"
	"os"
	"path/filepath"
	"sort"
	"strconv"
	"strings"
	"sync"
	"time"

	"github.com/magisterquis/curlrevshell/verifharness/mon"
	"github.com/magisterquis/curlrevshell/verifharness/mon/crs"
)

const (
	crsPkg  = "github.com/magisterquis/curlrevshell"
	toolPkg = "github.com/magisterquis/curlrevshell/lib/shellfuncsfile/cmd/shellfuncsfile"
)

const cliProcTimeout = 2 * time.Minute

// ---- the programs -------------------------------------------------------------

type cliBins struct {
	once     sync.Once
	crs      string
	tool     string
	tmpl     []byte // the default callback template (-print-default-template)
	toolHelp string
	err      error
}

func (c *checker) bins() *cliBins {
	b := &c.cli
	b.once.Do(func() {
		dir := filepath.Join(c.r.Work, "cli-bin")
		if b.err = os.MkdirAll(dir, 0o755); b.err != nil {
			return
		}
		if b.crs, b.err = crs.Build(dir, ""); b.err != nil {
			return
		}
		if b.tool, b.err = crs.Build(dir, toolPkg); b.err != nil {
			return
		}
		home := filepath.Join(dir, "home")
		os.MkdirAll(home, 0o755)
		res := mon.Proc{Path: b.crs, Args: []string{"-print-default-template"}, Env: crs.Env(home), Dir: home, Timeout: cliProcTimeout}.Run()
		if res.TimedOut || res.Status != 0 || len(res.Stdout) == 0 {
			b.err = fmt.Errorf("-print-default-template: status %d, stderr %q", res.Status, res.Stderr)
			return
		}
		b.tmpl = res.Stdout
		// what the tool's -h promises about -no-list-function
		h := mon.Proc{Path: b.tool, Args: []string{"-h"}, Env: crs.Env(home), Dir: home, Timeout: cliProcTimeout}.Run()
		b.toolHelp = string(h.Stderr) + string(h.Stdout)
		if !strings.Contains(b.toolHelp, "-no-list-function") || !strings.Contains(b.toolHelp, "Don't also generate a tab_list() function") {
			b.err = fmt.Errorf("the tool's -h no longer documents -no-list-function as \"Don't also generate a tab_list() function\": %q", b.toolHelp)
		}
	})
	return b
}

// raceEnv: the race detector's runtime sleeps one second at every exit unless
// told otherwise; the programs here are run hundreds of times.
func raceEnv() []string {
	v := "GORACE=halt_on_error=0 atexit_sleep_ms=0"
	if pre := os.Getenv("VERIF_RACELOG"); pre != "" {
		v += " log_path=" + pre
	}
	return []string{v}
}

func cliEnv(home string) []string { return append(crs.Env(home), raceEnv()...) }

// ---- sources ------------------------------------------------------------------

type cliSource struct {
	abs   string
	rel   string // relative to the case directory
	isDir bool
	own   int // tagged lines written below it (also in members that are skipped)
}

// Names.  Single files may have any name (no filter = sent as is); members of a
// directory are converted only when named *.sh, *.subr, *.pl.
var (
	cliFileNames = []string{"funcs.sh", "lib.subr", "my funcs.sh", "100%.sh", "lib%s%d.subr", " edge .subr", "plain", "notes.txt", "it's.sh", "a;b.subr", "$HOME.sh"}
	cliDirNames  = []string{"funcs", "funcs.d", "my funcs", "50%dir", " d ", "lib.sh.d"}
	cliMembers   = []string{"a.sh", "b.subr", "zz top.sh", "10%.subr", "M.sh", "_x.subr", "it's.sh"}
	cliPerlNames = []string{"penv.pl", "cli_p1.pl", "zap.pl"}
	cliSkipped   = []string{".hidden.sh", "Makefile", "README.txt", ".x.subr", "notes"}
)

// cliLines returns the lines of one source file: tagged lines (drawn from the
// shared pool of the case, so that sources overlap, or new ones), filler
// comment lines and, sometimes, a harmless function definition.
func cliLines(g *gen, pool *[]string, nt int, fnName string) (lines []string, tagged int) {
	rng := g.rng
	for k := 0; k < nt; k++ {
		for rng.IntN(4) == 0 {
			lines = append(lines, fillerLines[rng.IntN(len(fillerLines))])
		}
		var t string
		if len(*pool) > 0 && rng.IntN(3) == 0 {
			t = (*pool)[rng.IntN(len(*pool))] // also in another source
			g.classes["shared-between-sources"]++
		} else {
			t = g.text(*pool)
			*pool = append(*pool, t)
		}
		lines = append(lines, tag+t)
		tagged++
	}
	if fnName != "" { // first, so that it is a whole line whatever follows the file
		lines = append([]string{fnName + "() { :; }"}, lines...)
	}
	return lines, tagged
}

func perlFile(lines []string) string {
	// lead comments (kept by the Perl filter in front of the function), then code
	var lead []string
	for _, l := range lines {
		if strings.HasPrefix(l, "#") && l != "#" && !strings.HasPrefix(l, "#!") {
			lead = append(lead, l)
		}
	}
	return "#!/usr/bin/env perl\n" + strings.Join(lead, "\n") + "\nprint \"it's $ARGV[0]\\n\";\n# TABDOC: not_a_lead_comment after the code\n"
}

// cliTree writes 2-6 sources below dir/src.
func (c *checker) cliTree(rng *rand.Rand, i int, dir string) (srcs []cliSource, classes map[string]int64, err error) {
	g := &gen{rng: rng, clean: i%5 != 4, classes: map[string]int64{}}
	var pool []string
	root := filepath.Join(dir, "src")
	if err = os.MkdirAll(root, 0o755); err != nil {
		return
	}
	n := 2 + rng.IntN(5)
	// the first two sources: one file and one directory, in either order
	usedF, usedD := map[string]bool{}, map[string]bool{}
	fnSeq := 0
	write := func(p string, lines []string, nl bool) error {
		s := strings.Join(lines, "\n")
		if nl {
			s += "\n"
		}
		return os.WriteFile(p, []byte(s), 0o644)
	}
	for k := 0; k < n; k++ {
		isDir := rng.IntN(2) == 0
		if k < 2 {
			isDir = (k == 0) == (i%2 == 0)
		}
		nt := 1 + rng.IntN(6)
		if rng.IntN(6) == 0 {
			nt = 20 + rng.IntN(60)
		}
		if !isDir {
			var name string
			for {
				name = cliFileNames[rng.IntN(len(cliFileNames))]
				if !usedF[name] {
					break
				}
				name = strconv.Itoa(k) + name
				if !usedF[name] {
					break
				}
			}
			usedF[name] = true
			fn := ""
			if rng.IntN(3) == 0 {
				fnSeq++
				fn = fmt.Sprintf("cli_fn_%d", fnSeq)
			}
			lines, tagged := cliLines(g, &pool, nt, fn)
			p := filepath.Join(root, name)
			// a file that is sent as is may lack the final newline
			nl := !(filepath.Ext(name) == "" || filepath.Ext(name) == ".txt") || rng.IntN(2) == 0
			if err = write(p, lines, nl); err != nil {
				return
			}
			srcs = append(srcs, cliSource{abs: p, rel: filepath.Join("src", name), own: tagged})
			continue
		}
		var name string
		for {
			name = cliDirNames[rng.IntN(len(cliDirNames))]
			if !usedD[name] {
				break
			}
			name = strconv.Itoa(k) + name
			if !usedD[name] {
				break
			}
		}
		usedD[name] = true
		d := filepath.Join(root, name)
		if err = os.MkdirAll(d, 0o755); err != nil {
			return
		}
		own := 0
		nm := 1 + rng.IntN(4)
		perm := rng.Perm(len(cliMembers))
		for m := 0; m < nm; m++ {
			lines, tagged := cliLines(g, &pool, 1+rng.IntN(5), "")
			own += tagged
			if err = write(filepath.Join(d, cliMembers[perm[m]]), lines, rng.IntN(4) != 0); err != nil {
				return
			}
		}
		if rng.IntN(2) == 0 {
			lines, _ := cliLines(g, &pool, 1+rng.IntN(3), "")
			pf := perlFile(lines)
			own += len(refTexts(pf))
			if err = os.WriteFile(filepath.Join(d, cliPerlNames[rng.IntN(len(cliPerlNames))]), []byte(pf), 0o644); err != nil {
				return
			}
			g.classes["perl-member"]++
		}
		for _, sk := range cliSkipped {
			if rng.IntN(3) == 0 {
				lines, _ := cliLines(g, &pool, 1+rng.IntN(2), "")
				if err = write(filepath.Join(d, sk), lines, true); err != nil {
					return
				}
				g.classes["skipped-member"]++
			}
		}
		if rng.IntN(4) == 0 {
			sub := filepath.Join(d, "nested")
			os.MkdirAll(sub, 0o755)
			lines, _ := cliLines(g, &pool, 2, "")
			if err = write(filepath.Join(sub, "inner.sh"), lines, true); err != nil {
				return
			}
			g.classes["skipped-member"]++
		}
		srcs = append(srcs, cliSource{abs: d, rel: filepath.Join("src", name), isDir: true, own: own})
	}
	return srcs, g.classes, nil
}

// spell returns the path of a source as given on the command line: absolute,
// relative to the working directory, with ./ or through ../.
func (s cliSource) spell(k int, dir string) string {
	switch k % 4 {
	case 1:
		return s.rel
	case 2:
		return "./" + s.rel
	case 3:
		return filepath.Join("..", filepath.Base(dir)) + "/" + s.rel
	}
	return s.abs
}

// ---- the configuration matrix ---------------------------------------------------

type optCtx struct {
	home   string
	tmpl   []byte
	decoy  string // another existing Ctrl+I source (for a flag given twice)
	listen string
	eq     bool // spell the basic flags --flag=value
	useIO  bool // the fake shell must use one connection (/io)
	pre    []string
}

type cliOpt struct {
	name string
	pty  bool // usable where the program has to listen
	mk   func(x *optCtx) (args, env []string)
}

func mkdirWith(d string) string {
	os.MkdirAll(d, 0o755)
	os.WriteFile(filepath.Join(d, "index.html"), []byte("# TABDOC: served not part of any payload\n"), 0o644)
	return d
}

var cliOpts = []cliOpt{
	{"default", true, func(x *optCtx) ([]string, []string) { return nil, nil }},
	{"one-shell", true, func(x *optCtx) ([]string, []string) { x.useIO = true; return []string{"-one-shell"}, nil }},
	{"serve-files-from-directory", true, func(x *optCtx) ([]string, []string) {
		return []string{"-serve-files-from", mkdirWith(filepath.Join(x.home, "www"))}, nil
	}},
	{"serve-files-from-single-file", true, func(x *optCtx) ([]string, []string) {
		p := filepath.Join(x.home, "one.txt")
		os.WriteFile(p, []byte("# TABDOC: one served\n"), 0o644)
		return []string{"-serve-files-from", p}, nil
	}},
	{"serve-files-from-empty", true, func(x *optCtx) ([]string, []string) { return []string{"-serve-files-from="}, nil }},
	{"serve-files-from-name-with-spaces-at-the-edges", true, func(x *optCtx) ([]string, []string) {
		return []string{"-serve-files-from", mkdirWith(filepath.Join(x.home, " www "))}, nil
	}},
	{"serve-files-from-relative-dotdot", true, func(x *optCtx) ([]string, []string) {
		mkdirWith(filepath.Join(x.home, "rel"))
		return []string{"--serve-files-from=../" + filepath.Base(x.home) + "/rel"}, nil
	}},
	{"serve-files-from-symlink", true, func(x *optCtx) ([]string, []string) {
		mkdirWith(filepath.Join(x.home, "real"))
		os.Symlink("real", filepath.Join(x.home, "link"))
		return []string{"-serve-files-from", filepath.Join(x.home, "link")}, nil
	}},
	{"no-timestamps", true, func(x *optCtx) ([]string, []string) { return []string{"-no-timestamps"}, nil }},
	{"callback-address-one", true, func(x *optCtx) ([]string, []string) {
		return []string{"-callback-address", "c18.example.com"}, nil
	}},
	{"callback-address-dozens", true, func(x *optCtx) ([]string, []string) {
		var a []string
		for k := 0; k < 30; k++ {
			a = append(a, "-callback-address", fmt.Sprintf("h%d.example.com:%d", k, 4000+k))
		}
		return a, nil
	}},
	{"callback-template-file", true, func(x *optCtx) ([]string, []string) {
		p := filepath.Join(x.home, "cb.tmpl")
		os.WriteFile(p, x.tmpl, 0o644)
		return []string{"-callback-template", p}, nil
	}},
	{"callback-template-symlink", true, func(x *optCtx) ([]string, []string) {
		os.WriteFile(filepath.Join(x.home, "cb-real.tmpl"), x.tmpl, 0o644)
		os.Symlink("cb-real.tmpl", filepath.Join(x.home, "cb-link.tmpl"))
		return []string{"-callback-template=cb-link.tmpl"}, nil
	}},
	{"callback-template-missing", true, func(x *optCtx) ([]string, []string) {
		return []string{"-callback-template", filepath.Join(x.home, "no-such.tmpl")}, nil
	}},
	{"tls-certificate-cache-explicit", true, func(x *optCtx) ([]string, []string) {
		return []string{"-tls-certificate-cache", filepath.Join(x.home, "cert cache.txtar")}, nil
	}},
	{"tls-certificate-cache-in-served-directory", true, func(x *optCtx) ([]string, []string) {
		d := mkdirWith(filepath.Join(x.home, "pub"))
		return []string{"-serve-files-from", d, "-tls-certificate-cache", filepath.Join(d, "cert.txtar")}, nil
	}},
	{"log-flag", true, func(x *optCtx) ([]string, []string) { return []string{"-log", filepath.Join(x.home, "log.json")}, nil }},
	{"log-environment", true, func(x *optCtx) ([]string, []string) {
		return nil, []string{"CURLREVSHELL_LOG=" + filepath.Join(x.home, "env log.json")}
	}},
	{"ipv6-one-liners", true, func(x *optCtx) ([]string, []string) { return []string{"-ipv6-one-liners"}, nil }},
	{"prompt", true, func(x *optCtx) ([]string, []string) { return []string{"-prompt", "c18 '$ "}, nil }},
	{"listen-address-localhost", true, func(x *optCtx) ([]string, []string) { x.listen = "localhost:0"; return nil, nil }},
	{"flag=value-spelling", true, func(x *optCtx) ([]string, []string) { x.eq = true; return nil, nil }},
	{"ctrl-i-given-twice", true, func(x *optCtx) ([]string, []string) {
		x.pre = append(x.pre, "-ctrl-i", x.decoy)
		return nil, nil
	}},
	{"icanhazip", false, func(x *optCtx) ([]string, []string) { return []string{"-icanhazip"}, nil }},
}

// optSet chooses the options of cell k: the first len(list) cells one option
// each, then unordered pairs {a, a+d} without repetition: cell p has a = p mod
// n and the distance d in 1..(n-1)/2 rotated by a, p/n and the seed (so that
// the first n pairs already mix all distances).
func optSet(list []int, k, seed int) []int {
	n := len(list)
	if k < n {
		return []int{list[k]}
	}
	p := k - n
	nd := (n - 1) / 2
	a := p % n
	if seed < 0 {
		seed = -seed
	}
	d := 1 + (p/n+a+seed)%nd
	return []int{list[a], list[(a+d)%n]}
}

// distinctPairs is the number of different pairs among the first cells cells.
func distinctPairs(list []int, cells int) int64 {
	n := len(list)
	p := cells - n
	if p < 0 {
		p = 0
	}
	if max := n * ((n - 1) / 2); p > max {
		p = max
	}
	return int64(p)
}

func optNames(set []int) string {
	var s []string
	for _, o := range set {
		s = append(s, cliOpts[o].name)
	}
	sort.Strings(s)
	return strings.Join(s, "+")
}

func (c *checker) countOpts(kind string, set []int) {
	for _, o := range set {
		c.r.Count("cli_"+kind+"_option:"+cliOpts[o].name, 1)
	}
	if len(set) == 2 {
		c.r.Count("cli_"+kind+"_option_pairs", 1)
		c.cliMu.Lock()
		key := kind + ":" + optNames(set)
		if !c.cliPairs[key] {
			c.cliPairs[key] = true
			c.r.Count("cli_"+kind+"_distinct_option_pairs", 1)
		}
		c.cliMu.Unlock()
	} else {
		c.r.Count("cli_"+kind+"_single_options", 1)
	}
}

// crsArgs assembles the command line of curlrevshell.
func crsArgs(x *optCtx, set []int, src string, listen bool, tail ...string) (args, env []string) {
	var oa [][]string
	for _, o := range set {
		a, e := cliOpts[o].mk(x)
		oa = append(oa, a)
		env = append(env, e...)
	}
	args = append(args, x.pre...)
	flagv := func(name, v string) {
		if x.eq {
			args = append(args, "--"+name+"="+v)
		} else {
			args = append(args, "-"+name, v)
		}
	}
	if listen {
		l := x.listen
		if l == "" {
			l = "127.0.0.1:0"
		}
		flagv("listen-address", l)
	}
	if len(set) == 2 { // the source between the two options
		args = append(args, oa[0]...)
		flagv("ctrl-i", src)
		args = append(args, oa[1]...)
	} else {
		flagv("ctrl-i", src)
		args = append(args, oa[0]...)
	}
	return append(args, tail...), env
}

// ---- judging one obtained payload ---------------------------------------------------

type cliWhat struct {
	i      int
	path   string // "print", "pty", "tool"
	detail string
	argv   []string
}

// judgeOut sources out under the three shells; the reference is the set of
// tagged lines of out itself (the whole payload).
func (c *checker) judgeOut(w cliWhat, dir string, out []byte, extraRef []string) {
	r := c.r
	texts := refTexts(string(out))
	fid, _ := fidelityEligible(texts)
	aligned := fid && alignEligible(texts)
	if fid {
		r.Count("cli_fidelity_payloads", 1)
	}
	r.Eval(1) // every payload obtained from a program and judged is an evaluation of its own
	r.Count("cli_payloads_judged", 1)
	r.Count("cli_payloads_judged:"+w.path, 1)
	r.Count("cli_tabdoc_lines", int64(len(texts)))
	if sig, nt := tabdocSig(texts); nt {
		r.Distinct("cli\x00" + w.path + "\x00" + sig)
	}
	stub := "nul"
	if w.i%8 == 1 {
		stub = "hex"
	}
	reported := map[string]bool{}
	each := func(sh shellSpec, o *outcome, fs []finding) {
		if len(fs) > 0 && o.sourced && len(o.calls) == 0 && o.done == "D127" {
			fs = []finding{{"list-function-missing", "under " + sh.name + ": the payload defines no tab_list (status 127, stderr " + q(string(o.res.Stderr)) + "): no row of its " + strconv.Itoa(len(texts)) + " '# TABDOC:' lines is printed"}}
		}
		for _, f := range fs {
			if reported[f.key] {
				continue
			}
			reported[f.key] = true
			r.Violate("cli", w.i, f.key, fmt.Sprintf("cli case %d, %s (%s): %s", w.i, w.path, w.detail, f.what), map[string]any{
				"shell":        sh.name,
				"argv":         w.argv,
				"tabdoc_lines": lineWitness(texts),
				"payload":      q(clip(string(out), 8192)),
				"payload_len":  len(out),
				"definitions":  strings.Count("\n"+string(out), "\n"+selfName+"() {"),
				"stub_output":  stubWitness(o),
			})
		}
	}
	c.check(checkReq{dir: dir, src: string(out), stub: stub, fidelity: fid, aligned: aligned, texts: texts, prefix: "cli_"}, each)
	_ = extraRef
}

func sameTexts(a, b []string) bool {
	if len(a) != len(b) {
		return false
	}
	for k := range a {
		if a[k] != b[k] {
			return false
		}
	}
	return true
}

// rowSet is the set of reference rows of texts.
func rowSet(texts []string) map[pair]bool {
	m := map[pair]bool{}
	for _, t := range texts {
		if n, d, empty := refSplit(t); !empty {
			m[pair{n, d}] = true
		}
	}
	return m
}

// pickSource: the first two sources are one file and one directory.
func pickSource(srcs []cliSource, wantDir bool) (s, other cliSource) {
	if srcs[0].isDir == wantDir {
		return srcs[0], srcs[1]
	}
	return srcs[1], srcs[0]
}

// ---- one case -------------------------------------------------------------------------

var cliPtyOpts, cliPrintOpts []int

func init() {
	for k, o := range cliOpts {
		cliPrintOpts = append(cliPrintOpts, k)
		if o.pty {
			cliPtyOpts = append(cliPtyOpts, k)
		}
	}
}

func (c *checker) cliCase(i, nPty int) {
	r := c.r
	b := c.bins()
	if b.err != nil {
		return // reported once by the caller
	}
	rng := r.Rng("cli", i)
	r.Eval(1)
	r.Count("cli_cases", 1)
	dir := filepath.Join(r.Work, fmt.Sprintf("cli%d", i))
	if err := os.MkdirAll(dir, 0o755); err != nil {
		r.Inconclusive("mkdir: " + err.Error())
		return
	}
	defer os.RemoveAll(dir)
	srcs, classes, err := c.cliTree(rng, i, dir)
	if err != nil {
		r.Inconclusive("cli sources: " + err.Error())
		return
	}
	for cl, n := range classes {
		r.Count("cli_fragments_used:"+cl, n)
	}
	c.cliTool(i, rng, dir, srcs)
	c.cliPrint(i, rng, dir, srcs)
	if i < nPty {
		c.cliPty(i, rng, dir, srcs)
	}
}

// ---- (3) the shellfuncsfile tool --------------------------------------------------------

func (c *checker) runTool(dir string, args []string) (mon.ProcResult, bool) {
	home := filepath.Join(dir, "toolhome")
	os.MkdirAll(home, 0o755)
	res := mon.Proc{Path: c.cli.tool, Args: args, Env: cliEnv(home), Dir: dir, Timeout: cliProcTimeout}.Run()
	c.r.Count("cli_tool_runs", 1)
	if res.TimedOut {
		c.r.Inconclusive(fmt.Sprintf("shellfuncsfile %q did not finish within %s", args, cliProcTimeout))
		return res, false
	}
	if res.Status != 0 {
		c.r.Inconclusive(fmt.Sprintf("shellfuncsfile %q on readable sources exited with status %d: %s", args, res.Status, q(string(res.Stderr))))
		return res, false
	}
	return res, true
}

func (c *checker) cliTool(i int, rng *rand.Rand, dir string, srcs []cliSource) {
	r := c.r
	// the source lists of this case: one, two, all (shuffled; every third case
	// one of them twice)
	one := []int{rng.IntN(len(srcs))}
	two := []int{0, 1}
	if i%4 >= 2 {
		two = []int{1, 0}
	}
	all := rng.Perm(len(srcs))
	twice := i%3 == 0
	if twice {
		at := rng.IntN(len(all) + 1)
		dup := all[rng.IntN(len(all))]
		all = append(all[:at], append([]int{dup}, all[at:]...)...)
	}
	lists := [][]int{one, two, all}
	if i%2 == 1 { // the same single source given twice
		lists = append(lists, []int{one[0], one[0]})
	}
	onSpell := [][]string{nil, {"-no-list-function=false"}, {"--no-list-function=false"}, {"--"}, {"-no-list-function=0", "--"}}
	offSpell := [][]string{{"-no-list-function"}, {"--no-list-function"}, {"-no-list-function=true"}, {"--no-list-function=1", "--"}}
	for li, l := range lists {
		var paths []string
		dirs, files := 0, 0
		for k, s := range l {
			paths = append(paths, srcs[s].spell(i+li+k, dir))
			if srcs[s].isDir {
				dirs++
			} else {
				files++
			}
		}
		on := onSpell[(i+li)%len(onSpell)]
		argv := append(append([]string{}, on...), paths...)
		res, ok := c.runTool(dir, argv)
		if !ok {
			continue
		}
		r.Count("cli_tool_list_runs", 1)
		if len(on) > 0 && on[0] != "--" {
			r.Count("cli_tool_list_runs_with_no-list-function=false", 1)
		}
		switch {
		case len(l) == 1:
			r.Count("cli_tool_runs_with_1_source", 1)
		case len(l) == 2:
			r.Count("cli_tool_runs_with_2_sources", 1)
		default:
			r.Count("cli_tool_runs_with_3_or_more_sources", 1)
		}
		if dirs > 0 && files > 0 {
			r.Count("cli_tool_runs_with_files_and_directories", 1)
			if srcs[l[0]].isDir {
				r.Count("cli_tool_runs_directory_first", 1)
			} else {
				r.Count("cli_tool_runs_file_first", 1)
			}
		}
		seen := map[int]bool{}
		for _, s := range l {
			if seen[s] {
				r.Count("cli_tool_runs_same_source_twice", 1)
				break
			}
			seen[s] = true
		}
		out := res.Stdout
		texts := refTexts(string(out))
		// rows that only a source before the last one contributes: what the last
		// source alone would list does not cover them
		if len(l) > 1 {
			lastArgv := append(append([]string{}, offSpell[0]...), paths[len(paths)-1])
			if lr, ok := c.runTool(dir, lastArgv); ok {
				last := rowSet(refTexts(string(lr.Stdout)))
				only := 0
				for p := range rowSet(texts) {
					if !last[p] {
						only++
					}
				}
				if only > 0 {
					r.Count("cli_tool_runs_with_rows_only_from_an_earlier_source", 1)
					r.Count("cli_tool_rows_only_from_an_earlier_source", int64(only))
				}
			}
		}
		c.judgeOut(cliWhat{i, "tool", fmt.Sprintf("%d sources, list %d", len(l), li), append([]string{"shellfuncsfile"}, argv...)}, dir, out, nil)

		// the same sources with -no-list-function: the payload proper
		if li == 2 || (li+i)%3 == 0 {
			off := offSpell[(i+li)%len(offSpell)]
			argvOff := append(append([]string{}, off...), paths...)
			ro, ok := c.runTool(dir, argvOff)
			if !ok {
				continue
			}
			r.Count("cli_tool_no-list-function_runs", 1)
			plain := refTexts(string(ro.Stdout))
			if !sameTexts(plain, texts) {
				r.Violate("cli", i, "row-altered", fmt.Sprintf("cli case %d, tool: the '# TABDOC:' lines of the payload printed with %q (%d) are not those of the payload printed without (%d) for the same sources: tab_list cannot be the listing of that payload", i, off, len(plain), len(texts)),
					map[string]any{"argv_with": argv, "argv_without_list": argvOff, "with": lineWitness(texts), "without": lineWitness(plain)})
				continue
			}
			r.Count("cli_tool_no-list-function_payloads_same_tabdoc_lines", 1)
			// sourcing it must run nothing either; whether a tab_list exists is the
			// flag's business ("Don't also generate a tab_list() function") and is
			// only counted
			fn := filepath.Join(dir, "nolist.sh")
			os.WriteFile(fn, ro.Stdout, 0o644)
			o := c.runShell(shells[(i+li)%len(shells)], "nul", dir, fn, false, false)
			os.Remove(fn)
			switch {
			case o.res.TimedOut || o.sandboxErr != "":
				r.Inconclusive("sourcing a -no-list-function payload: watchdog/sandbox")
			case !o.sourced || len(o.preCalls) > 0 || len(o.leftovers) > 0:
				r.Violate("cli", i, "canary-created", fmt.Sprintf("cli case %d, tool: sourcing the payload printed with %q ran something (sourced %v, %d echo calls, files %q)", i, off, o.sourced, len(o.preCalls), o.leftovers), map[string]any{"argv": argvOff, "stub_output": stubWitness(o)})
			case o.done == "D127" && len(o.calls) == 0:
				r.Count("cli_tool_no-list-function_payloads_without_tab_list", 1)
			default:
				r.Count("cli_tool_no-list-function_payloads_WITH_tab_list", 1)
			}
		}
	}
}

// ---- (1) curlrevshell -ctrl-i SRC -print-ctrl-i ------------------------------------------

var printTails = [][]string{{"-print-ctrl-i"}, {"--print-ctrl-i"}, {"-print-ctrl-i=true"}, {"--print-ctrl-i=1"}}

func (c *checker) cliPrint(i int, rng *rand.Rand, dir string, srcs []cliSource) {
	r := c.r
	s, other := pickSource(srcs, (i/2)%2 == 0) // a file and a directory alternate
	set := optSet(cliPrintOpts, i, int(r.Seed))
	home := filepath.Join(dir, "phome")
	os.MkdirAll(home, 0o755)
	x := &optCtx{home: home, tmpl: c.cli.tmpl, decoy: other.abs}
	src := s.abs
	if i%3 == 1 { // relative to the working directory (= home)
		if rel, err := filepath.Rel(home, s.abs); err == nil {
			src = rel
		}
	}
	tail := printTails[(i/3)%len(printTails)]
	args, env := crsArgs(x, set, src, i%5 == 0, tail...)
	if i%4 == 3 { // -print-ctrl-i first
		args = append(append([]string{}, tail...), args[:len(args)-len(tail)]...)
	}
	res := mon.Proc{Path: c.cli.crs, Args: args, Env: append(cliEnv(home), env...), Dir: home, Timeout: cliProcTimeout}.Run()
	r.Count("cli_print_runs", 1)
	if res.TimedOut {
		r.Inconclusive(fmt.Sprintf("curlrevshell %q did not finish within %s", args, cliProcTimeout))
		return
	}
	if res.Status != 0 {
		r.Inconclusive(fmt.Sprintf("curlrevshell %q on a readable source exited with status %d: %s", args, res.Status, q(string(res.Stderr))))
		return
	}
	c.countOpts("print", set)
	if s.isDir {
		r.Count("cli_print_runs_directory_source", 1)
	} else {
		r.Count("cli_print_runs_file_source", 1)
	}
	r.Count("cli_print_spelling:"+strings.Join(tail, " "), 1)
	c.judgeOut(cliWhat{i, "print", optNames(set), append([]string{"curlrevshell"}, args...)}, dir, res.Stdout, nil)
}

// ---- (2) the real program on a pty, Tab / Ctrl+I to a fake shell ----------------------------

type fakeShell struct {
	in  *crs.InStream
	out *crs.OutStream
	io  *crs.IOStream
}

func (f *fakeShell) close() {
	if f.io != nil {
		f.io.Close()
		return
	}
	if f.in != nil {
		f.in.Close()
	}
	if f.out != nil {
		f.out.Close()
	}
}

func attach(addr string, useIO bool, id string) (*fakeShell, error) {
	if useIO {
		s, err := crs.OpenIO(addr)
		if err != nil {
			return nil, err
		}
		return &fakeShell{io: s, in: s.In}, nil
	}
	in, err := crs.OpenIn(addr, "/i/"+id)
	if err != nil {
		return nil, err
	}
	out, err := crs.OpenOut(addr, "/o/"+id)
	if err != nil {
		in.Close()
		return nil, err
	}
	return &fakeShell{in: in, out: out}, nil
}

// recv reads exactly n bytes of what the program sends to the shell.
func (f *fakeShell) recv(n int, d time.Duration) ([]byte, error) {
	if f.in.Resp == nil {
		if err := f.in.Header(d); err != nil {
			return nil, fmt.Errorf("response header: %w", err)
		}
	}
	f.in.C.SetReadDeadline(time.Now().Add(d))
	defer f.in.C.SetReadDeadline(time.Time{})
	buf := make([]byte, n)
	m, err := io.ReadFull(f.in.Resp.Body, buf)
	return buf[:m], err
}

func (c *checker) cliPty(i int, rng *rand.Rand, dir string, srcs []cliSource) {
	r := c.r
	s, other := pickSource(srcs, i%2 == 0)
	set := optSet(cliPtyOpts, i, int(r.Seed))
	home := filepath.Join(dir, "home")
	os.MkdirAll(home, 0o755)
	x := &optCtx{home: home, tmpl: c.cli.tmpl, decoy: other.abs, useIO: (i/2)%2 == 1}
	src := s.abs
	if i%3 == 2 {
		if rel, err := filepath.Rel(home, s.abs); err == nil {
			src = rel
		}
	}
	args, env := crsArgs(x, set, src, true)
	r.Count("cli_pty_sessions_started", 1)
	sess, err := crs.StartEnv(c.cli.crs, home, append(raceEnv(), env...), args...)
	if err != nil {
		r.Inconclusive(fmt.Sprintf("cli case %d: curlrevshell %q (%s) did not come up: %v", i, args, optNames(set), err))
		return
	}
	defer sess.Close()
	fs, err := attach(sess.Addr, x.useIO, fmt.Sprintf("c18x%d", i))
	if err != nil {
		r.Inconclusive(fmt.Sprintf("cli case %d: fake shell could not connect to %s: %v", i, sess.Addr, err))
		return
	}
	defer fs.close()
	if _, ok := sess.Wait(`Shell is ready`, 0, crs.Bound); !ok {
		r.Inconclusive(fmt.Sprintf("cli case %d (%s): no 'Shell is ready' within %s; terminal: %q", i, optNames(set), crs.Bound, clip(sess.P.Clean(), 1500)))
		return
	}
	c.countOpts("pty", set)
	if x.useIO {
		r.Count("cli_pty_sessions_shell_on_/io", 1)
	} else {
		r.Count("cli_pty_sessions_shell_on_/i+/o", 1)
	}
	if s.isDir {
		r.Count("cli_pty_sessions_directory_source", 1)
	} else {
		r.Count("cli_pty_sessions_file_source", 1)
	}
	var prev []string
	for round := 0; round < 2; round++ {
		from := sess.P.CleanLen()
		key := "Tab"
		if (i+round)%2 == 0 {
			sess.Type("\t")
		} else {
			key = "Ctrl+I"
			sess.Ctrl('I')
		}
		loc, ok := sess.Wait(`Inserted (\d+) bytes`, from, crs.Bound)
		if !ok {
			r.Inconclusive(fmt.Sprintf("cli case %d (%s): no 'Inserted n bytes' after %s within %s; terminal: %q", i, optNames(set), key, crs.Bound, clip(sess.P.Clean()[from:], 1500)))
			return
		}
		n, _ := strconv.Atoi(sess.P.Clean()[loc[2]:loc[3]])
		got, err := fs.recv(n+1, crs.Bound)
		if err != nil {
			r.Inconclusive(fmt.Sprintf("cli case %d (%s): the fake shell received %d of the %d+1 bytes the program says it inserted: %v", i, optNames(set), len(got), n, err))
			return
		}
		r.Count("cli_pty_payloads_received", 1)
		r.Count("cli_pty_payloads_received_after:"+key, 1)
		r.Count("cli_pty_payload_bytes_received", int64(n))
		payload := got[:n]
		texts := refTexts(string(payload))
		c.judgeOut(cliWhat{i, "pty", fmt.Sprintf("%s, round %d, %s", optNames(set), round, key), append([]string{"curlrevshell"}, args...)}, dir, payload, nil)
		if round == 1 {
			if !sameTexts(prev, texts) {
				r.Count("cli_pty_payloads_after_the_source_changed", 1)
			}
			break
		}
		prev = texts
		// the source is re-read every time: change it, then insert again
		g := &gen{rng: rng, clean: true, classes: map[string]int64{}}
		var pool []string
		lines, _ := cliLines(g, &pool, 1+rng.IntN(4), "")
		add := strings.Join(lines, "\n") + "\n"
		if s.isDir {
			os.WriteFile(filepath.Join(s.abs, "zzz added later.sh"), []byte(add), 0o644)
		} else if f, err := os.OpenFile(s.abs, os.O_APPEND|os.O_WRONLY, 0); err == nil {
			f.WriteString("\n" + add)
			f.Close()
		}
	}
	if st, sig, ok := sess.Quit(); ok {
		r.Count("cli_pty_sessions_ended", 1)
		_ = st
		_ = sig
	}
}

// ---- the engine ---------------------------------------------------------------------------

func (c *checker) cliEngine(nCli, nPty int) {
	r := c.r
	if b := c.bins(); b.err != nil {
		r.Inconclusive("cli engine: " + b.err.Error())
		return
	}
	r.Count("cli_tool_help_documents_no-list-function", 1)
	mon.Parallel(nCli, 6, func(i int) {
		if !r.Want("cli", i) {
			return
		}
		c.cliCase(i, nPty)
	})
}

func cliFloors(r *mon.Run, nCli, nPty int) {
	n, p := int64(nCli), int64(nPty)
	r.Floor("cli_cases", n*9/10)
	r.Floor("cli_tool_help_documents_no-list-function", 1)
	r.Floor("cli_payloads_judged:print", n*9/10)
	r.Floor("cli_payloads_judged:tool", n*3*9/10)
	r.Floor("cli_payloads_judged:pty", p*2*9/10)
	r.Floor("cli_fidelity_payloads", n*2)
	r.Floor("cli_shell_runs:dash", n*4)
	r.Floor("cli_shell_runs:bash", n*4)
	r.Floor("cli_shell_runs:bash-posix", n*4)
	r.Floor("cli_rows_compared", n*40)
	r.Floor("cli_print_runs_directory_source", n/3)
	r.Floor("cli_print_runs_file_source", n/3)
	for _, t := range printTails {
		r.Floor("cli_print_spelling:"+strings.Join(t, " "), n/6)
	}
	for _, o := range cliPrintOpts {
		r.Floor("cli_print_option:"+cliOpts[o].name, 1)
	}
	r.Floor("cli_print_distinct_option_pairs", distinctPairs(cliPrintOpts, nCli)*9/10)
	r.Floor("cli_tool_runs_with_1_source", n*9/10)
	r.Floor("cli_tool_runs_with_2_sources", n*9/10)
	r.Floor("cli_tool_runs_with_3_or_more_sources", n/2)
	r.Floor("cli_tool_runs_with_files_and_directories", n)
	r.Floor("cli_tool_runs_directory_first", n/3)
	r.Floor("cli_tool_runs_file_first", n/3)
	r.Floor("cli_tool_runs_same_source_twice", n/2)
	r.Floor("cli_tool_runs_with_rows_only_from_an_earlier_source", n)
	r.Floor("cli_tool_list_runs_with_no-list-function=false", n)
	r.Floor("cli_tool_no-list-function_runs", n)
	r.Floor("cli_tool_no-list-function_payloads_same_tabdoc_lines", n*9/10)
	r.Floor("cli_fragments_used:shared-between-sources", n)
	r.Floor("cli_fragments_used:perl-member", n/4)
	r.Floor("cli_pty_sessions_started", p*9/10)
	r.Floor("cli_pty_payloads_received", p*2*9/10)
	r.Floor("cli_pty_payloads_received_after:Tab", p*3/4)
	r.Floor("cli_pty_payloads_received_after:Ctrl+I", p*3/4)
	r.Floor("cli_pty_payloads_after_the_source_changed", p*8/10)
	r.Floor("cli_pty_sessions_shell_on_/io", p/3)
	r.Floor("cli_pty_sessions_shell_on_/i+/o", p/4)
	r.Floor("cli_pty_sessions_directory_source", p/3)
	r.Floor("cli_pty_sessions_file_source", p/3)
	r.Floor("cli_pty_sessions_ended", p*9/10)
	for _, o := range cliPtyOpts {
		r.Floor("cli_pty_option:"+cliOpts[o].name, 1)
	}
	r.Floor("cli_pty_distinct_option_pairs", distinctPairs(cliPtyOpts, nPty)*9/10)
}

// Package c18: the generated tab_list function lists the documented functions
// and is quote-safe.  Runtime monitoring: the function text produced by
// lib/shellfuncsfile is executed by real shells (dash, bash, bash --posix)
// with `echo` replaced by a recording stub, for many generated payloads.
package c18

import (
	"bytes"
	"encoding/hex"
	"fmt"
	"math/rand/v2"
	"os"
	"path/filepath"
	"runtime"
	"sort"
	"strconv"
	"strings"
	"sync"
	"time"
	"unicode"
	"unicode/utf8"

	"github.com/magisterquis/curlrevshell/lib/shellfuncsfile"
	"github.com/magisterquis/curlrevshell/verifharness/mon"
)

const Level = "exploration"

// The tag and the self row, written out from the property statement (not
// taken from the package's constants, so that changing those is noticed).
const (
	tag      = "# TABDOC:"
	selfName = "tab_list"
	selfDesc = "This function list"
)

const shellTimeout = 90 * time.Second

// ---- reference (from the statement) -----------------------------------------

// refTexts returns the text after the tag of every tagged line, in order.
func refTexts(payload string) []string {
	var out []string
	for _, l := range strings.Split(payload, "\n") {
		if strings.HasPrefix(l, tag) {
			out = append(out, l[len(tag):])
		}
	}
	return out
}

// refSplit: trim the ends, first word is the name, the remainder (trimmed)
// the description.  Only plain spaces are trimmed here; texts for which other
// whitespace at an edge would matter are not eligible for row fidelity.
func refSplit(text string) (name, desc string, empty bool) {
	t := strings.Trim(text, " ")
	if t == "" {
		return "", "", true
	}
	i := strings.IndexByte(t, ' ')
	if i < 0 {
		return t, "", false
	}
	return t[:i], strings.TrimLeft(t[i+1:], " "), false
}

func edgeSpace(s string) bool {
	if s == "" {
		return false
	}
	f, _ := utf8.DecodeRuneInString(s)
	l, _ := utf8.DecodeLastRuneInString(s)
	return unicode.IsSpace(f) || unicode.IsSpace(l)
}

// fidelityEligible says whether row fidelity is asserted for a payload with
// these texts: none contains one of the tab-writer's own control bytes, and
// no name or description begins or ends with whitespace other than the plain
// spaces that the reference trims (the statement does not say which other
// characters "trimmed" covers).
func fidelityEligible(texts []string) (bool, string) {
	for _, t := range texts {
		if hasTabwriterByte(t) {
			return false, "tab-writer control byte"
		}
		name, desc, empty := refSplit(t)
		if empty {
			continue
		}
		if edgeSpace(name) || edgeSpace(desc) {
			return false, "non-space whitespace at an edge"
		}
	}
	return true, ""
}

// hasTabwriterByte: TAB, VT, FF or 0xFF anywhere (bytewise).
func hasTabwriterByte(s string) bool {
	for i := 0; i < len(s); i++ {
		switch s[i] {
		case '\t', '\v', '\f', 0xff:
			return true
		}
	}
	return false
}

type pair struct{ name, desc string }

// parseRow takes the alignment padding away: name, run of spaces, "- ", description.
func parseRow(row string) (pair, bool) {
	i := strings.IndexByte(row, ' ')
	if i < 0 {
		return pair{}, false
	}
	j := i
	for j < len(row) && row[j] == ' ' {
		j++
	}
	rest := row[j:]
	switch {
	case strings.HasPrefix(rest, "- "):
		return pair{row[:i], rest[2:]}, true
	case rest == "-":
		return pair{row[:i], ""}, true
	}
	return pair{}, false
}

// ---- fragment pool -------------------------------------------------------------

type frag struct {
	class string
	s     string
}

// cleanPool holds fragments free of TAB/VT/FF/0xFF; wildPool adds those.
var cleanPool = []frag{
	// command substitution and parameter expansion
	{"cmdsubst", "$(touch CANARY1)"},
	{"cmdsubst", "`touch CANARY_BT`"},
	{"cmdsubst", "$(echo pwn > CANARY_CS)"},
	{"cmdsubst", "$(touch${IFS}CANARY_IFS)"},
	{"cmdsubst", "$((1+1))"},
	{"cmdsubst", "${IFS}"},
	{"cmdsubst", "$HOME"},
	{"cmdsubst", "${PATH:+x}"},
	{"cmdsubst", "$(tee CANARY_TEE </dev/null)"},
	{"cmdsubst", "`"},
	{"cmdsubst", "$("},
	{"cmdsubst", "${"},
	{"cmdsubst", "$'\\x27'"},
	{"cmdsubst", "$'\\''; touch CANARY_DS; echo $'"},
	// separators, redirections
	{"separator", "; touch CANARY2 ;"},
	{"separator", "&& touch CANARY3"},
	{"separator", "|| touch CANARY4"},
	{"separator", "| tee CANARY5"},
	{"separator", "> CANARY6"},
	{"separator", ">> CANARY7"},
	{"separator", "& touch CANARY8 &"},
	{"separator", "2> CANARY9"},
	{"separator", ">CANARY10"},
	{"separator", "}; touch CANARY11; {"},
	{"separator", "} ; touch CANARY12 ; tab_list() {"},
	{"separator", ";"},
	{"separator", "&"},
	{"separator", "|"},
	{"separator", ";;"},
	{"separator", "("},
	{"separator", ")"},
	{"separator", "{"},
	{"separator", "}"},
	{"separator", "<<EOF"},
	{"separator", "< /dev/null"},
	// single-quote breakers
	{"squote", "'"},
	{"squote", "''"},
	{"squote", "'''"},
	{"squote", `'\''`},
	{"squote", `'"'"'`},
	{"squote", `\'`},
	{"squote", `\\'`},
	{"squote", `\\\'`},
	{"squote", `'\'`},
	{"squote", `\''`},
	{"squote", "'; touch CANARY13; echo '"},
	{"squote", "' ; touch CANARY14 #"},
	{"squote", "'$(touch CANARY15)'"},
	{"squote", "'`touch CANARY16`'"},
	{"squote", "' > CANARY17 '"},
	{"squote", "'| tee CANARY18 '"},
	{"squote", "' && touch CANARY19 && echo '"},
	{"squote", `'\''; touch CANARY20; echo '\''`},
	{"squote", `\'; touch CANARY21; echo \'`},
	{"squote", `'"`},
	{"squote", `"'`},
	{"squote", "it's"},
	{"squote", "'a' 'b' 'c'"},
	{"squote", "' '"},
	// double quotes
	{"dquote", `"`},
	{"dquote", `\"`},
	{"dquote", `"$(touch CANARY22)"`},
	{"dquote", `"; touch CANARY23; "`},
	{"dquote", `""`},
	// backslashes
	{"backslash", `\`},
	{"backslash", `\\`},
	{"backslash", `\n`},
	{"backslash", `\t`},
	{"backslash", `\0`},
	{"backslash", `\x41`},
	{"backslash", `\047`},
	{"backslash", `\c`},
	{"backslash", `\$`},
	// history, brace, glob, tilde and friends
	{"expansion", "!!"},
	{"expansion", "!$"},
	{"expansion", "!-1"},
	{"expansion", "!touch"},
	{"expansion", "{a,b}"},
	{"expansion", "{1..3}"},
	{"expansion", "*"},
	{"expansion", "?"},
	{"expansion", "[a-z]*"},
	{"expansion", "/*"},
	{"expansion", "~"},
	{"expansion", "~root"},
	{"expansion", "~+"},
	{"expansion", "$$"},
	{"expansion", "$?"},
	{"expansion", "$0"},
	{"expansion", "$1"},
	{"expansion", "$@"},
	{"expansion", "$*"},
	{"expansion", "${#}"},
	{"expansion", "#"},
	{"expansion", " # not a comment"},
	{"expansion", "%"},
	{"expansion", "^"},
	{"expansion", "="},
	{"expansion", "-n"},
	{"expansion", "-e"},
	{"expansion", "--"},
	{"expansion", "-"},
	{"expansion", " - "},
	// spaces
	{"spaces", " "},
	{"spaces", "  "},
	{"spaces", "     "},
	// control bytes and terminal sequences
	{"control", "\x01"},
	{"control", "\x02"},
	{"control", "\x03"},
	{"control", "\x04"},
	{"control", "\x07"},
	{"control", "\x08"},
	{"control", "\r"},
	{"control", "\x0e"},
	{"control", "\x1a"},
	{"control", "\x1b"},
	{"control", "\x1b[2J"},
	{"control", "\x1b]0;title\x07"},
	{"control", "\x1c\x1d\x1e\x1f"},
	{"control", "\x7f"},
	{"control", "\x01\x7f\x01"},
	// invalid UTF-8
	{"invalid-utf8", "\x80"},
	{"invalid-utf8", "\xbf"},
	{"invalid-utf8", "\xc0\xaf"},
	{"invalid-utf8", "\xe2\x82"},
	{"invalid-utf8", "\xf0\x9f\x98"},
	{"invalid-utf8", "\xed\xa0\x80"},
	{"invalid-utf8", "\xfe"},
	{"invalid-utf8", "\xc3"},
	{"invalid-utf8", "\x81\x82\x83\x84\x85\x86\x87\x88"},
	{"invalid-utf8", "\xa0"},
	{"invalid-utf8", "\x85"},
	// valid non-ASCII, including Unicode whitespace (interior only when clean)
	{"unicode", "é"},
	{"unicode", "日本語"},
	{"unicode", "😀"},
	{"unicode", "\u200b"},
	{"unicode", "e\u0301"},
	{"unicode", "\u00a0"},
	{"unicode", "\u0085"},
	{"unicode", "\u2028"},
	{"unicode", "\u3000"},
	// shell words and markup that an HTML-filtering tab-writer would treat specially
	{"keyword", "tab_list"},
	{"keyword", "This function list"},
	{"keyword", "done"},
	{"keyword", "fi"},
	{"keyword", "esac"},
	{"keyword", "EOF"},
	{"keyword", "echo"},
	{"keyword", "<b>bold</b>"},
	{"keyword", "&amp;"},
	{"keyword", "{{ . }}"},
	{"keyword", "{{ end }}"},
	{"keyword", "# TABDOC:"},
	// plain words
	{"word", "Print"},
	{"word", "the"},
	{"word", "list"},
	{"word", "of"},
	{"word", "files"},
	{"word", "function"},
	{"word", "uploads"},
	{"word", "a"},
}

var wildPool = append(append([]frag{}, cleanPool...),
	frag{"tabwriter", "\t"},
	frag{"tabwriter", "\t\t"},
	frag{"tabwriter", "\v"},
	frag{"tabwriter", "\f"},
	frag{"tabwriter", "\xff"},
	frag{"tabwriter", "\xff'\xff"},
	frag{"tabwriter", "\xff\t'; touch CANARY24; echo '"},
	frag{"tabwriter", "a\tb\tc"},
	frag{"tabwriter", "\t- "},
)

var plainNames = []string{"ls", "upload", "get_file", "f1", "f2", "ps_grep", "x", "Z", "cd-", "a.b", "fn_0", "curl", "zz_top", "0", "tab_lis", "tab_list2", "tab_list"}

var fillerLines = []string{
	"",
	"#",
	"# a comment",
	"# f() {",
	"#         ls -l \"$@\"",
	"# }",
	"## TABDOC: not at the start",
	" # TABDOC: indented '; touch CANARY_FILL1; '",
	"#TABDOC: no space $(touch CANARY_FILL2)",
	"# TABDOC no colon `touch CANARY_FILL3`",
	"# tabdoc: lower case",
	"#\t# TABDOC: after a tab",
	"# x # TABDOC: in the middle '",
	"#!/bin/sh",
	"# it's a comment with a quote",
	"# trailing backslash \\",
}

// ---- generator --------------------------------------------------------------------

type payload struct {
	text    string
	texts   []string // texts after the tag, as generated (== refTexts(text))
	classes map[string]int64
	clean   bool // generated in fidelity mode
	curated bool
}

type gen struct {
	rng     *rand.Rand
	clean   bool
	classes map[string]int64
}

func (g *gen) pool() []frag {
	if g.clean {
		return cleanPool
	}
	return wildPool
}

func (g *gen) frag() string {
	p := g.pool()
	f := p[g.rng.IntN(len(p))]
	g.classes[f.class]++
	return f.s
}

func (g *gen) randByte() byte {
	for {
		b := byte(g.rng.Uint32())
		if b == 0 || b == '\n' {
			continue
		}
		if g.clean && (b == '\t' || b == '\v' || b == '\f' || b == 0xff) {
			continue
		}
		return b
	}
}

func (g *gen) randBytes(n int) string {
	b := make([]byte, n)
	for i := range b {
		switch g.rng.IntN(8) {
		case 0: // bias towards the interesting low range
			for {
				c := byte(1 + g.rng.IntN(0x2f))
				if c == '\n' || (g.clean && (c == '\t' || c == '\v' || c == '\f')) {
					continue
				}
				b[i] = c
				break
			}
		case 1:
			b[i] = "'\\\"$`;&|><(){}!*?~# "[g.rng.IntN(20)]
		default:
			b[i] = g.randByte()
		}
	}
	g.classes["random-bytes"]++
	return string(b)
}

// fixEdges makes s free of whitespace at its ends (clean mode only).
func (g *gen) fixEdges(s string) string {
	guards := []string{"x", "'", "$", "\\", "\x01", "\x80", "."}
	for s != "" {
		f, _ := utf8.DecodeRuneInString(s)
		if !unicode.IsSpace(f) {
			break
		}
		s = guards[g.rng.IntN(len(guards))] + s
	}
	for s != "" {
		l, _ := utf8.DecodeLastRuneInString(s)
		if !unicode.IsSpace(l) {
			break
		}
		s += guards[g.rng.IntN(len(guards))]
	}
	return s
}

func (g *gen) name() string {
	var s string
	switch g.rng.IntN(6) {
	case 0, 1:
		s = plainNames[g.rng.IntN(len(plainNames))]
	case 2:
		s = g.frag()
	case 3:
		s = plainNames[g.rng.IntN(len(plainNames))] + g.frag()
	case 4:
		s = g.frag() + g.frag()
	default:
		s = g.randBytes(1 + g.rng.IntN(12))
	}
	if g.rng.IntN(2) == 0 {
		s = strings.ReplaceAll(s, " ", "${IFS}")
	} else {
		s = strings.ReplaceAll(s, " ", "")
	}
	if g.clean {
		s = g.fixEdges(s)
	}
	if s == "" {
		s = "f" + strconv.Itoa(g.rng.IntN(100))
	}
	return s
}

func (g *gen) desc() string {
	var sb strings.Builder
	n := g.rng.IntN(7)
	for k := 0; k < n; k++ {
		switch g.rng.IntN(10) {
		case 0:
			sb.WriteString(g.randBytes(1 + g.rng.IntN(24)))
		default:
			sb.WriteString(g.frag())
		}
		switch g.rng.IntN(4) {
		case 0:
			sb.WriteString(" ")
		case 1:
			sb.WriteString(strings.Repeat(" ", 1+g.rng.IntN(4)))
		}
	}
	s := strings.Trim(sb.String(), " ")
	if g.clean {
		s = g.fixEdges(s)
	}
	return s
}

func (g *gen) spaces(min int) string {
	switch g.rng.IntN(4) {
	case 0:
		return strings.Repeat(" ", min+1+g.rng.IntN(5))
	case 1:
		return strings.Repeat(" ", min+1)
	}
	return strings.Repeat(" ", min)
}

// long returns a description of about n bytes.
func (g *gen) long(n int) string {
	var sb strings.Builder
	unit := g.frag() + g.frag() + " " + g.randBytes(16)
	for sb.Len() < n {
		if g.rng.IntN(8) == 0 {
			unit = g.frag() + " " + g.frag() + g.randBytes(8)
		}
		sb.WriteString(unit)
	}
	s := sb.String()[:n]
	if g.clean {
		s = g.fixEdges(strings.Trim(s, " "))
	}
	return s
}

func (g *gen) text(prev []string) string {
	switch k := g.rng.IntN(20); {
	case k == 0: // empty or blank
		g.classes["empty-text"]++
		return strings.Repeat(" ", g.rng.IntN(4))
	case k == 1 && len(prev) > 0: // exact duplicate
		g.classes["duplicate"]++
		return prev[g.rng.IntN(len(prev))]
	case k == 2 && len(prev) > 0: // same (name, description), other spacing
		g.classes["duplicate"]++
		n, d, empty := refSplit(prev[g.rng.IntN(len(prev))])
		if empty {
			return "   "
		}
		if d == "" {
			return g.spaces(0) + n + g.spaces(0)
		}
		return g.spaces(0) + n + g.spaces(1) + d + g.spaces(0)
	case k == 3 && len(prev) > 0: // a row that has another row as a prefix
		g.classes["prefix-extension"]++
		p := strings.TrimRight(prev[g.rng.IntN(len(prev))], " ")
		ext := []string{" more", "!", "\"", "#", "$", "&", "\x01", " ", "'", "~", "%", "  x"}[g.rng.IntN(12)]
		if g.clean {
			return p + g.fixEdges(strings.TrimRight(ext, " ")+".")
		}
		return p + ext
	case k == 4: // name only
		return g.spaces(0) + g.name() + g.spaces(0)
	case k == 5: // raw random text
		s := g.randBytes(1 + g.rng.IntN(80))
		if g.clean {
			n, d, empty := refSplit(s)
			if empty {
				return s
			}
			n = g.fixEdges(n)
			if d = g.fixEdges(d); d == "" {
				return " " + n
			}
			return " " + n + " " + d
		}
		return s
	case k == 6: // one fragment as the whole text
		s := g.frag()
		if g.clean {
			n, d, empty := refSplit(s)
			if empty {
				return s
			}
			n = g.fixEdges(n)
			if d = g.fixEdges(d); d == "" {
				return n
			}
			return n + " " + d
		}
		return s
	}
	d := g.desc()
	if d == "" {
		return g.spaces(0) + g.name() + g.spaces(0)
	}
	return g.spaces(0) + g.name() + g.spaces(1) + d + g.spaces(0)
}

const maxLine = 64 << 10

// Payloads i >= 2 with i%overEvery == overPhase additionally get lines LONGER
// than 64 KiB (a line reader with a bounded buffer stops at such a line).  The
// modulus is odd so that these payloads also fall on the Converter.From and
// the hex-stub indices.
const (
	overEvery = 9
	overPhase = 4
)

func overlongIndex(i int) bool { return i >= 2 && i%overEvery == overPhase }

// overLens are the lengths (bytes, approximately: the line prefix comes on
// top) of over-long lines; the first is just over the 64 KiB limit.
var overLens = []int{maxLine + 1, 70 << 10, 100 << 10, 128<<10 + 1, 200 << 10, 300 << 10}

// hugeLens: lines beyond 1 MiB and its multiples (a tool embedded as one line
// of base64), where readers with a larger bounded buffer stop.
var hugeLens = []int{1<<20 + 1, 1<<20 + 4096, 2<<20 + 1, 3 << 20, 4<<20 + 1}

// blobPrefixes start an over-long NON-TABDOC line: comments (so the whole
// payload can still be sourced), two of them near misses of the tag.
var blobPrefixes = []string{
	"# blob: ",
	"#",
	"# uuencoded '; touch CANARY_BLOB1; ' ",
	"## TABDOC: blobfn ",
	" # TABDOC: blobfn $(touch CANARY_BLOB2) ",
	"#TABDOC: ",
}

const b64 = "ABCDEFGHIJKLMNOPQRSTUVWXYZabcdefghijklmnopqrstuvwxyz0123456789+/"

// blob returns an over-long comment line of n bytes after the prefix.
func (g *gen) blob(n int) string {
	pre := blobPrefixes[g.rng.IntN(len(blobPrefixes))]
	g.classes["overlong-untagged-line"]++
	if g.rng.IntN(3) == 0 {
		return pre + g.long(n) // quote breakers and random bytes
	}
	b := make([]byte, n)
	x := g.rng.Uint64() | 1
	for k := range b {
		x ^= x << 13
		x ^= x >> 7
		x ^= x << 17
		b[k] = b64[x&63]
	}
	return pre + string(b)
}

// genPayload builds payload i.  Indices 0 and 1 are curated: every fragment
// of the (clean / wild) pool once as a description and once as a name.
func genPayload(rng *rand.Rand, i int) payload {
	g := &gen{rng: rng, classes: map[string]int64{}}
	var lines, texts []string
	var tagged []bool
	filler := func(l string) {
		lines = append(lines, l)
		tagged = append(tagged, false)
	}
	add := func(t string) {
		if len(tag)+len(t) > maxLine {
			t = t[:maxLine-len(tag)]
		}
		texts = append(texts, t)
		lines = append(lines, tag+t)
		tagged = append(tagged, true)
	}
	if i < 2 {
		g.clean = i == 0
		for k, f := range g.pool() {
			g.classes[f.class] += 2
			d := strings.Trim(f.s, " ")
			n := strings.ReplaceAll(f.s, " ", "")
			if g.clean {
				d, n = g.fixEdges(d), g.fixEdges(n)
			}
			add(fmt.Sprintf(" f%03d %s", k, d))
			if n != "" {
				add(fmt.Sprintf(" %s name made of fragment %d", n, k))
			}
			if k%7 == 0 {
				filler(fillerLines[(k/7)%len(fillerLines)])
			}
		}
		return payload{text: strings.Join(lines, "\n") + "\n", texts: texts, classes: g.classes, clean: g.clean, curated: true}
	}
	over := overlongIndex(i)
	g.clean = rng.IntN(100) < 60
	if over && (i/overEvery)%5 != 0 {
		g.clean = true // most over-long payloads are judged on row fidelity
	}
	nt := 1 + rng.IntN(40)
	if rng.IntN(3) == 0 {
		nt = 1 + rng.IntN(6)
	}
	longAt, longLen := -1, 0
	if rng.IntN(25) == 0 {
		longAt = rng.IntN(nt)
		longLen = []int{4 << 10, 16 << 10, maxLine - 64, maxLine - len(tag) - 12}[rng.IntN(4)]
	}
	for k := 0; k < nt; k++ {
		for rng.IntN(3) == 0 {
			filler(fillerLines[rng.IntN(len(fillerLines))])
		}
		if k == longAt {
			g.classes["long-line"]++
			add(" " + g.name() + " " + g.long(longLen))
			continue
		}
		add(g.text(texts))
	}
	for rng.IntN(3) == 0 {
		filler(fillerLines[rng.IntN(len(fillerLines))])
	}
	if over {
		// Over-long lines are inserted into the finished line list.  Kinds, by
		// index: 0 one untagged blob, 1 one tagged line with an over-long
		// description, 2 both, 3 several of each anywhere (also last).
		insert := func(at int, l string, isTag bool) {
			lines = append(lines[:at], append([]string{l}, lines[at:]...)...)
			tagged = append(tagged[:at], append([]bool{isTag}, tagged[at:]...)...)
		}
		// a position at or before the last tagged line: rows follow the long line
		beforeLastTag := func() int {
			last := 0
			for k, t := range tagged {
				if t {
					last = k
				}
			}
			if g.rng.IntN(4) == 0 {
				return 0 // very first line: every row follows
			}
			return g.rng.IntN(last + 1)
		}
		olen := func() int {
			if (i/overEvery)%2 == 1 && g.rng.IntN(2) == 0 {
				return hugeLens[g.rng.IntN(len(hugeLens))]
			}
			return overLens[g.rng.IntN(len(overLens))]
		}
		doc := func() string {
			g.classes["overlong-tagged-line"]++
			return tag + g.spaces(0) + g.name() + g.spaces(1) + g.long(olen())
		}
		switch kind := (i / overEvery) % 4; kind {
		case 0:
			insert(beforeLastTag(), g.blob(olen()), false)
		case 1:
			insert(beforeLastTag(), doc(), true)
		case 2:
			insert(beforeLastTag(), g.blob(olen()), false)
			insert(beforeLastTag(), doc(), true)
		default:
			for k, n := 0, 2+g.rng.IntN(3); k < n; k++ {
				at := g.rng.IntN(len(lines) + 1)
				if k == 0 {
					at = beforeLastTag()
				}
				if g.rng.IntN(2) == 0 {
					insert(at, g.blob(olen()), false)
				} else {
					insert(at, doc(), true)
				}
			}
		}
		texts = texts[:0]
		for k, l := range lines {
			if tagged[k] {
				texts = append(texts, l[len(tag):])
			}
		}
	}
	text := strings.Join(lines, "\n")
	if rng.IntN(4) != 0 {
		text += "\n"
	}
	return payload{text: text, texts: texts, classes: g.classes, clean: g.clean}
}

// overStats looks at the final payload text: lines longer than 64 KiB (tagged,
// untagged) and the number of distinct reference rows of tagged lines that
// come after the first such line.
func overStats(text string) (overTagged, overUntagged, rowsAfter int) {
	seen := map[pair]bool{}
	after := false
	for _, l := range strings.Split(text, "\n") {
		isTag := strings.HasPrefix(l, tag)
		if after && isTag {
			if n, d, empty := refSplit(l[len(tag):]); !empty && !seen[pair{n, d}] {
				seen[pair{n, d}] = true
				rowsAfter++
			}
		}
		if len(l) > maxLine {
			after = true
			if isTag {
				overTagged++
			} else {
				overUntagged++
			}
		}
	}
	return
}

// ---- running a shell -------------------------------------------------------------------

type shellSpec struct {
	name string
	path string
	args []string
}

var shells = []shellSpec{
	{"dash", "/usr/bin/dash", nil},
	{"bash", "/usr/bin/bash", []string{"--noprofile", "--norc"}},
	{"bash-posix", "/usr/bin/bash", []string{"--noprofile", "--norc", "--posix"}},
}

// Two recording stubs.  "nul": every call prints C<argc>, then each argument,
// all NUL-terminated (a shell word cannot contain NUL, so the framing is
// unambiguous and nothing is forked).  "hex": every call prints a line
// C<argc> and one line A<hex of the argument> per argument (od, tr from the
// stub PATH).  Markers: S after sourcing, F<status> when sourcing failed,
// D<status> after the call.
const scriptNul = `echo() { printf 'C%s\0' "$#"; for a in "$@"; do printf '%s\0' "$a"; done; }
. "$1" || { printf 'F%s\0' "$?"; exit 96; }
printf 'S\0'
tab_list
printf 'D%s\0' "$?"
`

const scriptHex = `echo() { printf 'C%s\n' "$#"; for a in "$@"; do printf 'A'; printf '%s' "$a" | od -An -v -tx1 | tr -d ' \n'; printf '\n'; done; }
. "$1" || { printf 'F%s\n' "$?"; exit 96; }
printf 'S\n'
tab_list
printf 'D%s\n' "$?"
`

type outcome struct {
	res        mon.ProcResult
	stub       string
	protoErr   string     // stdout does not follow the stub protocol
	sourced    bool       // S seen
	srcFail    string     // F<status>
	done       string     // D<status>, "" if absent
	preCalls   [][]string // echo calls before S (code executed while sourcing)
	calls      [][]string // echo calls after S
	leftovers  []string   // names found in the sandbox afterwards
	sandboxErr string
	big        bool // run under the stack-raising wrapper
}

// wrapFailed: the wrapper could not raise the stack limit (nothing was run).
func (o *outcome) wrapFailed() bool {
	return o.big && o.res.Status == wrapStatus && !o.sourced && len(o.res.Stdout) == 0
}

func parseOutcome(o *outcome) {
	var toks []string
	out := string(o.res.Stdout)
	var sep string
	if o.stub == "nul" {
		sep = "\x00"
	} else {
		sep = "\n"
	}
	toks = strings.Split(out, sep)
	if toks[len(toks)-1] != "" {
		o.protoErr = fmt.Sprintf("unterminated trailing output %q", clip(toks[len(toks)-1], 80))
	}
	toks = toks[:len(toks)-1]
	i := 0
	for i < len(toks) {
		t := toks[i]
		i++
		switch {
		case strings.HasPrefix(t, "C"):
			n, err := strconv.Atoi(t[1:])
			if err != nil || n < 0 {
				o.protoErr = fmt.Sprintf("bad call header %q", clip(t, 80))
				return
			}
			if i+n > len(toks) {
				o.protoErr = fmt.Sprintf("call header %q followed by %d of %d arguments", t, len(toks)-i, n)
				n = len(toks) - i
			}
			args := make([]string, 0, n)
			for _, a := range toks[i : i+n] {
				if o.stub == "hex" {
					if !strings.HasPrefix(a, "A") {
						o.protoErr = fmt.Sprintf("argument line %q without marker", clip(a, 80))
						return
					}
					b, err := hex.DecodeString(a[1:])
					if err != nil {
						o.protoErr = fmt.Sprintf("argument line %q is not hex", clip(a, 80))
						return
					}
					a = string(b)
				}
				args = append(args, a)
			}
			i += n
			if o.sourced {
				o.calls = append(o.calls, args)
			} else {
				o.preCalls = append(o.preCalls, args)
			}
		case t == "S" && !o.sourced && o.done == "":
			o.sourced = true
		case strings.HasPrefix(t, "F") && !o.sourced && o.srcFail == "":
			o.srcFail = t
		case strings.HasPrefix(t, "D") && o.sourced && o.done == "":
			o.done = t
		default:
			o.protoErr = fmt.Sprintf("unexpected token %q at %d", clip(t, 80), i-1)
			return
		}
	}
}

type env struct {
	r       *mon.Run
	stubDir string
}

func newEnv(r *mon.Run) (*env, error) {
	e := &env{r: r, stubDir: filepath.Join(r.Work, "stubbin")}
	if err := os.MkdirAll(e.stubDir, 0o755); err != nil {
		return nil, err
	}
	// od and tr for the hex stub; touch and tee so that an injected command
	// from the fragment pool really leaves a canary.  Nothing else.
	for _, p := range []string{"od", "tr", "touch", "tee"} {
		if err := os.Symlink("/usr/bin/"+p, filepath.Join(e.stubDir, p)); err != nil {
			return nil, err
		}
		if _, err := os.Stat(filepath.Join(e.stubDir, p)); err != nil {
			return nil, err
		}
	}
	return e, nil
}

// bigStackKB is the stack limit (KiB) under which the shells of the many-rows
// and kept-result engines run: dash and bash recurse over the command list of
// a function body, and bash 5.2 overflows the default 8 MiB stack at some
// 20,000-40,000 commands.  That limit is the shell's, not the function's.
const bigStackKB = 1 << 20

const bigShellTimeout = 10 * time.Minute

// wrapStatus is the exit status of the stack-raising wrapper when it fails.
const wrapStatus = 97

// runShell sources file fn under sh in a fresh empty sandbox below dir.  With
// big set the shell is started by a dash wrapper that first raises the stack
// limit (ulimit -s, then exec), and the infrastructure watchdog is longer.
func (e *env) runShell(sh shellSpec, stub, dir, fn string, count, big bool) *outcome {
	sbx := filepath.Join(dir, "sbx-"+sh.name)
	os.RemoveAll(sbx)
	o := &outcome{stub: stub}
	if err := os.MkdirAll(sbx, 0o755); err != nil {
		o.sandboxErr = err.Error()
		return o
	}
	script := scriptNul
	if stub == "hex" {
		script = scriptHex
	}
	args := append(append([]string{}, sh.args...), "-c", script, "sh", fn)
	path, to := sh.path, shellTimeout
	if big {
		wrap := fmt.Sprintf(`ulimit -s %d || exit %d; exec "$@"`, bigStackKB, wrapStatus)
		args = append([]string{"-c", wrap, "wrap", sh.path}, args...)
		path, to = shells[0].path, bigShellTimeout
	}
	o.res = mon.Proc{
		Path: path, Args: args, Dir: sbx, Timeout: to,
		Env: []string{"PATH=" + e.stubDir, "LC_ALL=C", "HOME=" + sbx},
	}.Run()
	o.big = big
	if count {
		e.r.Count("shell_runs", 1)
		e.r.Count("shell_runs:"+sh.name, 1)
		e.r.Count("stub_runs:"+stub, 1)
	} else {
		e.r.Count("auxiliary_shell_runs", 1) // probes, minimisation
	}
	if o.res.TimedOut {
		return o
	}
	parseOutcome(o)
	ents, err := os.ReadDir(sbx)
	if err != nil {
		o.sandboxErr = err.Error()
	}
	for _, en := range ents {
		o.leftovers = append(o.leftovers, en.Name())
	}
	if count {
		e.r.Count("canary_checks", 1)
	}
	os.RemoveAll(sbx)
	return o
}

// ---- oracle --------------------------------------------------------------------------------

type finding struct {
	key  string
	what string
}

func clip(s string, n int) string {
	if len(s) > n {
		return s[:n]
	}
	return s
}

func q(s string) string {
	if len(s) > 300 {
		return fmt.Sprintf("%q…(%d bytes)", s[:300], len(s))
	}
	return fmt.Sprintf("%q", s)
}

// alignEligible says whether the alignment of the table is asserted: every
// name is made of printable ASCII (0x21-0x7e), for which "the same column"
// has one meaning (bytes = characters = terminal cells).
func alignEligible(texts []string) bool {
	for _, t := range texts {
		name, _, empty := refSplit(t)
		if empty {
			continue
		}
		for k := 0; k < len(name); k++ {
			if name[k] < 0x21 || name[k] > 0x7e {
				return false
			}
		}
	}
	return true
}

// descCol is the byte offset at which the "- " of a row begins.
func descCol(row string) int {
	i := strings.IndexByte(row, ' ')
	if i < 0 {
		return -1
	}
	for i < len(row) && row[i] == ' ' {
		i++
	}
	return i
}

// judge applies the oracle to one shell run: quote-safety always, row
// fidelity against the reference split of texts when fidelity is set, and,
// with aligned, that the rows form ONE table (the description column begins
// at the same offset in every row of the whole listing).
func judge(o *outcome, sh string, fidelity, aligned bool, texts []string) (fs []finding, rowsCompared, rowsAligned int) {
	add := func(key, format string, a ...any) {
		fs = append(fs, finding{key, "under " + sh + ": " + fmt.Sprintf(format, a...)})
	}
	if !o.sourced {
		add("function-does-not-parse", "sourcing the generated function did not succeed (status %d, %s, stderr %s)", o.res.Status, o.srcFail, q(string(o.res.Stderr)))
		if len(o.leftovers) > 0 {
			add("canary-created", "files %q appeared in the sandbox while sourcing", o.leftovers)
		}
		return
	}
	if len(o.preCalls) > 0 {
		add("function-does-not-parse", "%d echo calls were executed while sourcing, before tab_list was called: text after the tag ended the function definition", len(o.preCalls))
	}
	for k, c := range o.calls {
		if len(c) != 1 {
			add("argc-not-1", "echo call %d received %d arguments %s", k, len(c), q(strings.Join(c, "␞")))
			break
		}
	}
	if len(o.leftovers) > 0 {
		add("canary-created", "files %q appeared in the empty sandbox directory", o.leftovers)
	}
	if o.protoErr != "" {
		add("stdout-not-from-stub", "something other than the echo stub wrote to stdout: %s", o.protoErr)
	}
	if len(o.res.Stderr) > 0 {
		add("shell-stderr", "the shell wrote to stderr: %s", q(string(o.res.Stderr)))
	}
	if o.res.Status != 0 || o.done != "D0" {
		add("shell-status", "shell exit status %d signal %q, tab_list status marker %q", o.res.Status, o.res.Signal, o.done)
	}
	if !fidelity || len(fs) > 0 {
		return
	}
	// Row fidelity.
	rows := make([]string, len(o.calls))
	for k, c := range o.calls {
		rows[k] = c[0]
	}
	for k := 1; k < len(rows); k++ {
		if rows[k] < rows[k-1] {
			add("rows-unsorted", "row %d %s sorts before row %d %s", k, q(rows[k]), k-1, q(rows[k-1]))
			break
		}
	}
	expect := map[pair]int{{selfName, selfDesc}: 1}
	emptyTexts := false
	for _, t := range texts {
		n, d, empty := refSplit(t)
		if empty {
			emptyTexts = true
			continue
		}
		expect[pair{n, d}] = 1
	}
	got := map[pair]int{}
	for k, row := range rows {
		p, ok := parseRow(row)
		if !ok {
			add("row-altered", "row %d %s is not of the form name, spaces, \"- \", description", k, q(row))
			return
		}
		if p.name == "" && p.desc == "" && emptyTexts {
			continue // a row for a tagged line without text: the statement does not say
		}
		got[p]++
	}
	rowsCompared = len(rows)
	var missing, extra []string
	for p := range expect {
		if got[p] == 0 {
			missing = append(missing, fmt.Sprintf("(%s, %s)", q(p.name), q(p.desc)))
		}
	}
	for p, n := range got {
		if expect[p] == 0 {
			extra = append(extra, fmt.Sprintf("(%s, %s)", q(p.name), q(p.desc)))
		} else if n > 1 {
			extra = append(extra, fmt.Sprintf("(%s, %s) ×%d", q(p.name), q(p.desc), n))
		}
	}
	sort.Strings(missing)
	sort.Strings(extra)
	switch {
	case len(missing) > 0 && len(extra) > 0:
		add("row-altered", "%d expected rows absent and %d unexpected rows present; first absent %s, first unexpected %s", len(missing), len(extra), missing[0], extra[0])
	case len(missing) > 0:
		add("row-missing", "%d expected rows absent; first %s", len(missing), missing[0])
	case len(extra) > 0:
		add("row-extra", "%d unexpected or repeated rows; first %s", len(extra), extra[0])
	}
	if !aligned || len(fs) > 0 {
		return
	}
	col, first := -1, -1
	for k, row := range rows {
		if strings.HasPrefix(row, " ") {
			continue // the optional row of a tagged line without text
		}
		c := descCol(row)
		switch {
		case col < 0:
			col, first = c, k
		case c != col:
			add("rows-misaligned", "the rows are not one table: the description of row %d %s begins at column %d, that of row %d %s at column %d", k, q(clip(row, 120)), c, first, q(clip(rows[first], 120)), col)
			return
		}
		rowsAligned++
	}
	return
}

// ---- one payload ----------------------------------------------------------------------------

func lineWitness(texts []string) []map[string]string {
	var out []map[string]string
	for k, t := range texts {
		if k >= 64 {
			out = append(out, map[string]string{"note": fmt.Sprintf("%d more lines (regenerate with --replay)", len(texts)-k)})
			break
		}
		m := map[string]string{"quoted": q(tag + t), "hex": hex.EncodeToString([]byte(clip(tag+t, 512)))}
		if len(tag+t) > 512 {
			m["hex_truncated_from"] = strconv.Itoa(len(tag + t))
		}
		out = append(out, m)
	}
	return out
}

func stubWitness(o *outcome) map[string]any {
	so := string(o.res.Stdout)
	return map[string]any{
		"stub":          o.stub,
		"stdout_quoted": q(clip(so, 4096)),
		"stdout_hex":    hex.EncodeToString([]byte(clip(so, 2048))),
		"stdout_len":    len(so),
		"stderr":        q(clip(string(o.res.Stderr), 2048)),
		"status":        o.res.Status,
		"leftovers":     o.leftovers,
	}
}

type checker struct {
	*env
	mu        sync.Mutex
	minimised map[string]int

	cli      cliBins // engine cli: the built programs
	cliMu    sync.Mutex
	cliPairs map[string]bool
}

// checkReq is one function text to be sourced and judged.
type checkReq struct {
	dir, src, stub string
	fidelity       bool
	aligned        bool // assert one table (see alignEligible)
	big            bool // raised stack limit, long watchdog
	texts          []string
	rowsAfterLong  int
	shells         []shellSpec // nil = all
	prefix         string      // counter prefix of the engine ("" = payload engine)
}

// check runs one function text under the shells and hands the findings to each.
func (c *checker) check(rq checkReq, each func(sh shellSpec, o *outcome, fs []finding)) (ok bool) {
	fn := filepath.Join(rq.dir, "fn.sh")
	if err := os.WriteFile(fn, []byte(rq.src), 0o644); err != nil {
		c.r.Inconclusive("writing function file: " + err.Error())
		return false
	}
	defer os.Remove(fn)
	shs := rq.shells
	if shs == nil {
		shs = shells
	}
	var ref [][]string
	var refSh string
	for _, sh := range shs {
		o := c.runShell(sh, rq.stub, rq.dir, fn, true, rq.big)
		if o.res.TimedOut {
			c.r.Inconclusive(fmt.Sprintf("%s did not finish within the infrastructure watchdog (%s / %s)", sh.name, shellTimeout, bigShellTimeout))
			continue
		}
		if o.sandboxErr != "" {
			c.r.Inconclusive("sandbox: " + o.sandboxErr)
			continue
		}
		if o.wrapFailed() {
			c.r.Inconclusive(fmt.Sprintf("the stack limit could not be raised to %d KiB for %s: %s", bigStackKB, sh.name, q(string(o.res.Stderr))))
			continue
		}
		fs, n, na := judge(o, sh.name, rq.fidelity, rq.aligned, rq.texts)
		c.r.Count("echo_calls_observed", int64(len(o.calls)+len(o.preCalls)))
		c.r.Count("rows_compared", int64(n))
		c.r.Count("rows_checked_for_one_table", int64(na))
		if rq.prefix != "" {
			c.r.Count(rq.prefix+"shell_runs", 1)
			c.r.Count(rq.prefix+"shell_runs:"+sh.name, 1)
			c.r.Count(rq.prefix+"rows_compared", int64(n))
			c.r.Count(rq.prefix+"rows_checked_for_one_table", int64(na))
		}
		if n > 0 && rq.rowsAfterLong > 0 {
			// the comparison was made against a reference that includes the rows
			// of the tagged lines after the first over-long line
			c.r.Count("rows_after_a_long_line_checked", int64(rq.rowsAfterLong))
			c.r.Count("shell_runs_with_rows_after_a_long_line", 1)
		}
		// every shell must have been handed the same words
		if len(fs) == 0 {
			if ref == nil {
				ref, refSh = o.calls, sh.name
			} else if !sameCalls(ref, o.calls) {
				fs = append(fs, finding{"row-altered", fmt.Sprintf("under %s: the words handed to echo differ from those under %s for the same function text", sh.name, refSh)})
			}
		}
		each(sh, o, fs)
	}
	return true
}

func sameCalls(a, b [][]string) bool {
	if len(a) != len(b) {
		return false
	}
	for i := range a {
		if len(a[i]) != len(b[i]) {
			return false
		}
		for j := range a[i] {
			if a[i][j] != b[i][j] {
				return false
			}
		}
	}
	return true
}

func tabdocSig(texts []string) (sig string, nontrivial bool) {
	s := append([]string{}, texts...)
	sort.Strings(s)
	var sb strings.Builder
	last := "\x00"
	for _, t := range s {
		if t == last {
			continue
		}
		last = t
		if strings.Trim(t, " ") != "" {
			nontrivial = true
		}
		sb.WriteString(t)
		sb.WriteByte('\n')
	}
	return sb.String(), nontrivial
}

// minimise looks for a single tagged line that alone gives the same failure class.
func (c *checker) minimise(dir string, texts []string, key string, sh shellSpec) map[string]string {
	c.mu.Lock()
	c.minimised[key]++
	over := c.minimised[key] > 4 // per failure class; each attempt costs up to 60 shell runs
	c.mu.Unlock()
	if over {
		return nil
	}
	seen := map[string]bool{}
	tried := 0
	for _, t := range texts {
		if seen[t] || tried >= 60 {
			continue
		}
		seen[t] = true
		tried++
		pl := tag + t + "\n"
		fn, err := shellfuncsfile.GenFuncList(pl)
		if err != nil {
			continue
		}
		p := filepath.Join(dir, "min.sh")
		os.WriteFile(p, fn, 0o644)
		o := c.runShell(sh, "nul", dir, p, false, false)
		os.Remove(p)
		if o.res.TimedOut {
			continue
		}
		fid, _ := fidelityEligible([]string{t})
		fs, _, _ := judge(o, sh.name, fid, false, []string{t})
		for _, f := range fs {
			if f.key == key {
				return map[string]string{"payload_quoted": q(pl), "payload_hex": hex.EncodeToString([]byte(clip(pl, 512))), "function": clip(string(fn), 2048), "what": f.what}
			}
		}
	}
	return nil
}

func (c *checker) payload(i int) {
	r := c.r
	rng := r.Rng("payload", i)
	p := genPayload(rng, i)
	r.Eval(1)
	r.Count("payloads", 1)
	r.Count("tabdoc_lines", int64(len(p.texts)))
	for cl, n := range p.classes {
		r.Count("quote_breaker_fragments_used:"+cl, n)
	}
	// the generator's idea of the tagged lines must be the reference's
	texts := refTexts(p.text)
	if len(texts) != len(p.texts) {
		r.Inconclusive(fmt.Sprintf("payload %d: generator and reference disagree on the tagged lines (%d vs %d)", i, len(p.texts), len(texts)))
		return
	}
	var ctl int64
	invalid, long, dup := false, false, false
	seen := map[pair]bool{}
	for _, t := range texts {
		for k := 0; k < len(t); k++ {
			if t[k] >= 1 && t[k] <= 0x1f {
				ctl++
			}
		}
		if !utf8.ValidString(t) {
			invalid = true
		}
		if len(t) >= 16<<10 {
			long = true
		}
		n, d, empty := refSplit(t)
		if empty {
			r.Count("empty_text_lines", 1)
			continue
		}
		if seen[pair{n, d}] {
			dup = true
		}
		seen[pair{n, d}] = true
	}
	r.Count("bytes_0x01_0x1f_used", ctl)
	if invalid {
		r.Count("invalid_utf8_payloads", 1)
	}
	if long {
		r.Count("long_line_payloads", 1)
	}
	overTagged, overUntagged, rowsAfterLong := overStats(p.text)
	if overTagged+overUntagged > 0 {
		r.Count("payloads_with_line_over_64k", 1)
		r.Count("lines_over_64k", int64(overTagged+overUntagged))
		for _, l := range strings.Split(p.text, "\n") {
			if len(l) > 1<<20 {
				r.Count("lines_over_1m", 1)
				if rowsAfterLong > 0 {
					r.Count("lines_over_1m_in_payloads_with_rows_after_a_long_line", 1)
				}
			}
		}
		if overTagged > 0 {
			r.Count("payloads_with_tabdoc_line_over_64k", 1)
		}
		if overUntagged > 0 {
			r.Count("payloads_with_untagged_line_over_64k", 1)
		}
		if rowsAfterLong > 0 {
			r.Count("payloads_with_rows_after_a_long_line", 1)
		}
	}
	if dup {
		r.Count("duplicate_line_payloads", 1)
	}
	if sig, nt := tabdocSig(texts); nt {
		r.Distinct(sig)
	}
	fidelity, why := fidelityEligible(texts)
	aligned := alignEligible(texts)
	if fidelity {
		r.Count("fidelity_payloads", 1)
		if aligned {
			r.Count("one_table_payloads", 1)
		}
	} else {
		r.Count("quote_safety_only_payloads:"+why, 1)
	}

	dir := filepath.Join(r.Work, fmt.Sprintf("p%d", i))
	if err := os.MkdirAll(dir, 0o755); err != nil {
		r.Inconclusive("mkdir: " + err.Error())
		return
	}
	defer os.RemoveAll(dir)

	stub := "nul"
	if i%8 == 1 {
		stub = "hex"
	}
	reported := map[string]bool{}
	report := func(path, src string) func(sh shellSpec, o *outcome, fs []finding) {
		return func(sh shellSpec, o *outcome, fs []finding) {
			for _, f := range fs {
				if reported[f.key] {
					continue
				}
				reported[f.key] = true
				w := map[string]any{
					"shell":          sh.name,
					"path":           path,
					"tabdoc_lines":   lineWitness(texts),
					"function":       clip(src, 8192),
					"function_len":   len(src),
					"stub_output":    stubWitness(o),
					"fidelity_check": fidelity,
				}
				if m := c.minimise(dir, texts, f.key, sh); m != nil {
					w["minimal_single_line_witness"] = m
				}
				r.Violate("payload", i, f.key, fmt.Sprintf("payload %d (%s): %s", i, path, f.what), w)
			}
		}
	}

	// (1) GenFuncList directly; only the returned function is sourced.
	fn, err := shellfuncsfile.GenFuncList(p.text)
	if err != nil {
		r.Violate("payload", i, "function-does-not-parse", fmt.Sprintf("payload %d: GenFuncList failed: %v", i, err), map[string]any{"tabdoc_lines": lineWitness(texts)})
		return
	}
	if overTagged+overUntagged > 0 && fidelity {
		r.Count("fidelity_payloads_with_line_over_64k", 1)
	}
	c.check(checkReq{dir: dir, src: string(fn), stub: stub, fidelity: fidelity, aligned: fidelity && aligned, texts: texts, rowsAfterLong: rowsAfterLong}, report("GenFuncList", string(fn)))

	// (2) for a sample, through Converter.From on a .sh file of comment lines.
	if i%4 == 0 {
		src := filepath.Join(dir, "funcs.sh")
		if err := os.WriteFile(src, []byte(p.text), 0o644); err != nil {
			r.Inconclusive("writing payload: " + err.Error())
			return
		}
		cv := shellfuncsfile.NewDefaultConverter()
		cv.AddListFunction = true
		out, err := cv.From(src)
		os.Remove(src)
		if err != nil {
			r.Violate("payload", i, "function-does-not-parse", fmt.Sprintf("payload %d: Converter.From failed: %v", i, err), map[string]any{"tabdoc_lines": lineWitness(texts)})
			return
		}
		r.Count("converter_from_payloads", 1)
		if !bytes.HasPrefix(out, []byte(p.text)) {
			r.Violate("payload", i, "row-altered", fmt.Sprintf("payload %d: Converter.From output does not start with the .sh file's contents", i), map[string]any{"tabdoc_lines": lineWitness(texts), "output_head": q(clip(string(out), 1024))})
		}
		if overTagged+overUntagged > 0 {
			r.Count("converter_from_payloads_with_line_over_64k", 1)
		}
		c.check(checkReq{dir: dir, src: string(out), stub: stub, fidelity: fidelity, aligned: fidelity && aligned, texts: refTexts(string(out)), rowsAfterLong: rowsAfterLong}, report("Converter.From", string(out)))
	}
}

// ---- positive probe ---------------------------------------------------------------------------

// probe shows, per shell, that the machinery sees what it is looking for: a
// deliberately unsafe hand-written function must yield an argc of 2, two
// canary files and a stderr line.
func (c *checker) probe() {
	dir := filepath.Join(c.r.Work, "probe")
	os.MkdirAll(dir, 0o755)
	defer os.RemoveAll(dir)
	fn := filepath.Join(dir, "fn.sh")
	os.WriteFile(fn, []byte("tab_list() {\n        echo 'a' $(touch PROBE1) 'b c'\n        echo 'x' | tee PROBE2 >/dev/null\n        echo 'it'\\''s'\n        nonexistent_command_c18\n}\n"), 0o644)
	for _, sh := range shells {
		for _, stub := range []string{"nul", "hex"} {
			o := c.runShell(sh, stub, dir, fn, false, false)
			sort.Strings(o.leftovers)
			ok := !o.res.TimedOut && o.sourced && len(o.calls) == 2 && len(o.calls[0]) == 2 && o.calls[0][1] == "b c" &&
				len(o.calls[1]) == 1 && o.calls[1][0] == "it's" &&
				strings.Join(o.leftovers, ",") == "PROBE1,PROBE2" && len(o.res.Stderr) > 0 && o.done == "D127"
			if !ok {
				c.r.Inconclusive(fmt.Sprintf("positive probe failed under %s/%s: calls=%q leftovers=%q stderr=%q done=%q proto=%q", sh.name, stub, o.calls, o.leftovers, o.res.Stderr, o.done, o.protoErr))
				continue
			}
			c.r.Count("canary_probe_ok", 1)
		}
	}
}

// oracleProbe shows that the row oracle refuses what the many-rows engine is
// there to find: a row printed twice with different padding, and a listing
// that is two tables.
func (c *checker) oracleProbe() {
	mk := func(rows ...string) *outcome {
		o := &outcome{stub: "nul", sourced: true, done: "D0"}
		for _, r := range rows {
			o.calls = append(o.calls, []string{r})
		}
		return o
	}
	texts := []string{" die Print and exit", " a_long_name_here x", "die  Print and exit"}
	keys := func(o *outcome) string {
		fs, _, _ := judge(o, "probe", true, alignEligible(texts), texts)
		var ks []string
		for _, f := range fs {
			ks = append(ks, f.key)
		}
		return strings.Join(ks, ",")
	}
	row := func(w int, n, d string) string { return fmt.Sprintf("%-*s- %s", w, n, d) }
	self := row(18, selfName, selfDesc)
	good := mk(row(18, "a_long_name_here", "x"), row(18, "die", "Print and exit"), self)
	twice := mk(row(18, "a_long_name_here", "x"), row(18, "die", "Print and exit"), row(10, "die", "Print and exit"), self)
	split := mk(row(18, "a_long_name_here", "x"), row(10, "die", "Print and exit"), self)
	for _, p := range []struct {
		o    *outcome
		want string
	}{{good, ""}, {twice, "row-extra"}, {split, "rows-misaligned"}} {
		if got := keys(p.o); got != p.want {
			c.r.Inconclusive(fmt.Sprintf("oracle probe: judge gave %q, expected %q", got, p.want))
			continue
		}
		c.r.Count("oracle_probe_ok", 1)
	}
}

// Run is the check.
func Run(r *mon.Run) {
	r.Rule = "cases: payload i is generated from Rng(payload,i): 1-40 '# TABDOC:' lines (payloads 0 and 1: every fragment of the pool once as description and once as name) interleaved with comment/near-miss lines; texts are assembled from a pool of quote breakers, command substitutions, separators/redirections to canary paths, expansions, control bytes, invalid UTF-8, Unicode whitespace, random bytes (no LF, no NUL), duplicates (exact and re-spaced), prefix extensions, empty texts, lines up to 64 KiB; every 9th payload (i%9==4) additionally carries 1-4 lines LONGER than 64 KiB (64 KiB+1 ... 300 KiB; in every second such payload half of them 1 MiB+1 ... 4 MiB+1): untagged comment/near-miss blob lines and/or tagged lines whose description is that long, placed before some tagged lines (reference rows include the lines after the long one), 4 of 5 of them generated in fidelity mode; 60% of the payloads are generated free of TAB/VT/FF/0xFF and of non-space whitespace at name/description edges (row fidelity asserted, decided by a predicate on the final payload), the others are unrestricted (quote-safety only). Every payload: GenFuncList(payload) sourced alone under dash, bash and bash --posix with echo replaced by a recording function (NUL-framed; every 8th payload od-hex), cwd a fresh empty directory, PATH a stub directory; every 4th payload additionally through Converter.From (AddListFunction) on a .sh file, whole output sourced. distinct_nontrivial = distinct sets of TABDOC texts (hash) having at least one non-blank text. Where every name of a fidelity payload is printable ASCII, the listing must also be ONE table: the description column begins at the same offset in every row (rows-misaligned). ENGINE many (MANY ROWS): payload i from Rng(many,i) has 1,000 ... 20,000 tagged lines (thorough: ... 200,000; sizes from a fixed list plus 0-199), cut into regions of 100-5,500 lines each with its own range of name lengths (1-5, 3-8, 6-11, 12-28, 30-60; every third payload starts with more than 1,000 lines of names shorter than the function's own), in half of the payloads 1-3 single names of 64-103 bytes anywhere; names of printable ASCII with shell metacharacters (every 4th payload: pool fragments mixed in, then no one-table assertion), descriptions from the pool / quote breakers, 2% empty texts, filler lines; exact and re-spaced duplicates of earlier lines are placed about 512, 1024, 2048, 3000, 4096, 6000, 10000, 20000, 50000, 100000 lines (+-64) after the original where the payload is that long, between the first and the last 40 lines, and at random distances; GenFuncList (every 4th: Converter.From, whole output) sourced under ONE shell per payload by index (thorough: all three) with the stack limit raised, judged against the reference over the WHOLE payload: one row per distinct (name, description), sorted, one table. ENGINE keep: round j from Rng(keep,j) has 4-7 distinct fidelity payloads of 1-1,400 lines; by j%4: GenFuncList / Converter.From, sequential (call 1 for payload 1, then 1-6 later calls for the other payloads; every returned slice is kept, copied at once and compared with the copy after the last call; the slice kept from call 1 is then sourced and judged against payload 1) or concurrent (4 resp. 8 goroutines, 12 resp. 25 calls each; every result compared on return, and again after the goroutine's next call, with the bytes the same payload gives alone; a differing result is sourced beside the one generated alone: it is a violation only if the shell observes other words or the judge fails). ENGINE cli (THE WAYS A USER GETS tab_list; the real programs, built with the race detector from the working tree): case i from Rng(cli,i) writes 2-6 Ctrl+I sources (the first two one file and one directory; files named *.sh / *.subr / without a filter - sent as is, possibly without final newline -, names with spaces, %, quotes; directories with 1-4 *.sh/*.subr members, in half of them a *.pl member with TABDOC lead comments, members that are skipped: dotfiles, other names, a subdirectory) whose tagged lines are drawn from one pool per case, so that sources share lines and every source has lines of its own (4 of 5 cases in fidelity mode). (3) the shellfuncsfile tool is run with one source, with the first two in both orders by index, with ALL sources in a shuffled order (every third case one of them twice), every second case with the same single source twice; sources spelled absolute / relative / ./ / through ../; the list function left on by default or by -no-list-function=false, --no-list-function=false, -no-list-function=0, after --; for half of the lists the same sources again with -no-list-function (4 spellings; its -h promises \"Don't also generate a tab_list() function\", checked at start): that payload must have the same tagged lines and run nothing when sourced (whether it defines tab_list is only counted). (1) `curlrevshell -ctrl-i SRC -print-ctrl-i` (4 spellings, before or after the other flags, SRC a file / a directory alternately, absolute or relative). (2) for the first 2x23 (thorough 23+150) cases the real curlrevshell on a pty with -ctrl-i SRC, a fake shell attached on /i+/o or /io (always /io under -one-shell); Tab and Ctrl+I alternately; the n bytes the terminal reports as inserted are READ BY THE SHELL and are the payload; then the source is changed (lines appended / a member added) and inserted again (re-read every time). (1) and (2) run under a CONFIGURATION MATRIX of the other documented options - cell k < number of options: option k alone, then pairs (a, a+step) by index and seed, the -ctrl-i flag between the two: default, -one-shell, -serve-files-from (directory / single file / empty / name with spaces at the edges / relative through ../ / symlink), -no-timestamps, -callback-address (one / 30), -callback-template (file / symlink / missing), -tls-certificate-cache (explicit / inside the served directory), -log, CURLREVSHELL_LOG, -ipv6-one-liners, -prompt, -listen-address localhost:0, --flag=value spelling, -ctrl-i given twice (the last wins), -icanhazip (print only: without network it never listens). EVERY payload so obtained is sourced whole and alone under dash, bash and bash --posix and judged by the same oracle against the tagged lines OF THAT WHOLE PAYLOAD: one row per distinct (name, description) plus the own row, sorted, one word per echo, nothing run; a payload without any tab_list is list-function-missing"
	r.Assumptions = []string{
		"dash 0.5.12 and bash 5.2 (normal and --posix) stand for 'a POSIX shell'; LC_ALL=C",
		"the property ends where the word is handed to echo: what a real echo does with backslashes or -n is not observed",
		"row fidelity is asserted only for payloads without TAB/VT/FF/0xFF in any text and without non-space Unicode whitespace at the edges of a name or description (the statement's 'trimmed' is not defined for those); a tagged line without text may yield no row or an empty row",
		"non-TABDOC payload lines are comment or blank lines, so that the Converter.From output can be sourced whole without running harness text",
		"'one table' (aligned over the whole listing) is asserted only where every name is printable ASCII, so that a column has one meaning; how wide the name column is is not asserted, only that it is the same in every row",
		"many-rows and kept-result shells are started with `ulimit -s 1048576` (a dash wrapper that execs the shell): dash and bash recurse over a function body's command list, and bash 5.2 overflows the default 8 MiB stack somewhere between 20,000 and 40,000 echo commands - a limit of the shell, not of the listing; their watchdog is 10 min (infrastructure, inconclusive when it fires)",
		"engine cli: curlrevshell always asks for the list function (doc/flags.md: tab_list after Ctrl+I; -print-ctrl-i prints 'what Tab/Ctrl+I would send'), the tool asks for it unless -no-list-function is given; several sources on the tool's command line are one payload (Converter.From(sources...)); a program that exits non-zero on readable sources, does not come up under a documented option or does not report the insertion within 30 s is inconclusive here (not this property); source files hold only comment lines, `name() { :; }` definitions and Perl scripts, so that the whole payload can be sourced; GORACE atexit_sleep_ms=0 for the built programs",
		"a caller may keep the slice returned by GenFuncList / Converter.From: it must go on being the function of the payload it was generated for, whatever is generated later or at the same time (the statement speaks of THE listing function of THE payload); a change of the kept bytes is a violation only when a shell that sources them observes other words than before or the judge fails",
	}
	for _, sh := range shells {
		if _, err := os.Stat(sh.path); err != nil {
			r.Inconclusive("shell unavailable: " + err.Error())
			return
		}
	}
	e, err := newEnv(r)
	if err != nil {
		r.Inconclusive("stub directory: " + err.Error())
		return
	}
	c := &checker{env: e, minimised: map[string]int{}, cliPairs: map[string]bool{}}
	if !r.Replaying() {
		c.probe()
		c.oracleProbe()
	}
	n := r.N(600, 15000)
	if r.WantEngine("payload") {
		// two small written-out samples, chosen deterministically
		if !r.Replaying() {
			ns := 0
			wantFid := true // one sample with row fidelity asserted, one without
			for i := 2; i < n && ns < 2; i++ {
				p := genPayload(r.Rng("payload", i), i)
				if len(p.texts) < 3 || len(p.texts) > 8 || len(p.text) > 1200 {
					continue
				}
				fn, err := shellfuncsfile.GenFuncList(p.text)
				if err != nil {
					continue
				}
				fid, _ := fidelityEligible(p.texts)
				if fid != wantFid {
					continue
				}
				wantFid = !wantFid
				r.Sample("payload", map[string]any{"index": i, "payload_quoted": fmt.Sprintf("%q", p.text), "generated_function_quoted": fmt.Sprintf("%q", fn), "row_fidelity_asserted": fid})
				ns++
			}
		}
	}
	// The many-rows payloads and the kept-result rounds run beside the ordinary
	// payloads (which thereby are "other calls at the same time" as well).
	nMany := r.N(12, 48)
	nKeep := r.N(48, 480)
	var wg sync.WaitGroup
	t0 := time.Now()
	if r.WantEngine("many") {
		wg.Add(1)
		go func() {
			defer wg.Done()
			defer func() { r.Logf("engine many done after %s", time.Since(t0).Round(time.Millisecond)) }()
			mon.Parallel(nMany, 4, func(i int) {
				if !r.Want("many", i) {
					return
				}
				c.many(i)
			})
		}()
	}
	if r.WantEngine("keep") {
		wg.Add(1)
		go func() {
			defer wg.Done()
			defer func() { r.Logf("engine keep done after %s", time.Since(t0).Round(time.Millisecond)) }()
			mon.Parallel(nKeep, 3, func(j int) {
				if !r.Want("keep", j) {
					return
				}
				c.keep(j)
			})
		}()
	}
	nPty := r.N(2*len(cliPtyOpts), len(cliPtyOpts)+150)
	nCli := r.N(2*len(cliPrintOpts)+12, len(cliPrintOpts)+260)
	if r.WantEngine("cli") {
		wg.Add(1)
		go func() {
			defer wg.Done()
			defer func() { r.Logf("engine cli done after %s", time.Since(t0).Round(time.Millisecond)) }()
			c.cliEngine(nCli, nPty)
		}()
	}
	if r.WantEngine("payload") {
		mon.Parallel(n, runtime.NumCPU(), func(i int) {
			if !r.Want("payload", i) {
				return
			}
			c.payload(i)
		})
	}
	r.Logf("engine payload done after %s", time.Since(t0).Round(time.Millisecond))
	wg.Wait()
	r.Floor("payloads", int64(n*9/10))
	r.Floor("shell_runs:dash", int64(n*9/10))
	r.Floor("shell_runs:bash", int64(n*9/10))
	r.Floor("shell_runs:bash-posix", int64(n*9/10))
	r.Floor("echo_calls_observed", int64(n*20))
	r.Floor("rows_compared", int64(n*8))
	r.Floor("fidelity_payloads", int64(n/4))
	r.Floor("canary_checks", int64(n*3*9/10))
	r.Floor("canary_probe_ok", int64(2*len(shells)))
	r.Floor("oracle_probe_ok", 3)
	r.Floor("converter_from_payloads", int64(n/5))
	r.Floor("quote_breaker_fragments_used:squote", int64(n/2))
	r.Floor("quote_breaker_fragments_used:cmdsubst", int64(n/2))
	r.Floor("bytes_0x01_0x1f_used", int64(n))
	r.Floor("invalid_utf8_payloads", int64(n/10))
	r.Floor("long_line_payloads", 1)
	r.Floor("payloads_with_line_over_64k", int64(n/10))
	r.Floor("lines_over_1m_in_payloads_with_rows_after_a_long_line", int64(n/60))
	r.Floor("payloads_with_tabdoc_line_over_64k", int64(n/25))
	r.Floor("payloads_with_untagged_line_over_64k", int64(n/25))
	r.Floor("fidelity_payloads_with_line_over_64k", int64(n/15))
	r.Floor("converter_from_payloads_with_line_over_64k", int64(n/60))
	r.Floor("rows_after_a_long_line_checked", int64(n))
	r.Floor("one_table_payloads", int64(n/20))
	r.Floor("rows_checked_for_one_table", int64(n))

	cliFloors(r, nCli, nPty)

	// many rows
	m := int64(nMany)
	perShell := m / 4 // quick: one shell per payload, by index
	if r.Thorough() {
		perShell = m * 9 / 10
	}
	r.Floor("many_payloads", m*9/10)
	r.Floor("many_shell_runs:dash", perShell)
	r.Floor("many_shell_runs:bash", perShell)
	r.Floor("many_shell_runs:bash-posix", perShell)
	r.Floor("many_tabdoc_lines", m*5000)
	r.Floor("many_rows_compared", m*4000)
	r.Floor("many_rows_checked_for_one_table", m*2000)
	r.Floor("many_fidelity_payloads", m*9/10)
	r.Floor("many_one_table_payloads", m/2)
	r.Floor("many_payloads_through:GenFuncList", m/2)
	r.Floor("many_payloads_through:Converter.From", m/6)
	r.Floor("many_payloads_with_2000_or_more_lines", m/2)
	r.Floor("many_payloads_with_10000_or_more_lines", m/6)
	if r.Thorough() {
		r.Floor("many_payloads_with_100000_or_more_lines", m/12)
	}
	r.Floor("many_payloads_name_width_varies_between_regions", m*3/4)
	r.Floor("many_payloads_first_1000_lines_narrower_than_later_ones", m/3)
	r.Floor("many_payloads_first_1000_lines_narrower_than_own_row", m/6)
	r.Floor("many_duplicates_1000_or_more_lines_apart", m*6)
	r.Floor("many_duplicates_2000_or_more_lines_apart", m*3)
	r.Floor("many_duplicates_4000_or_more_lines_apart", m)
	r.Floor("many_duplicates_10000_or_more_lines_apart", m/3)
	r.Floor("many_duplicates_across_the_whole_payload", m)
	r.Floor("many_far_duplicates_exact", m*2)
	r.Floor("many_far_duplicates_respaced", m*2)

	// kept results
	k := int64(nKeep)
	r.Floor("keep_rounds", k*9/10)
	for _, md := range keepModes {
		r.Floor("keep_rounds:"+md, k/5)
	}
	r.Floor("keep_later_calls", k)
	r.Floor("keep_results_compared_after_later_calls", k)
	r.Floor("keep_first_results_sourced_after_later_calls", k*2/5)
	r.Floor("keep_concurrent_results_compared", k*40)
	r.Floor("keep_reference_results_sourced", k*2/5)
	r.Floor("keep_rows_compared", k*10)
}

package c18

// Engine "keep": the function generated for payload 1 must go on listing
// payload 1 — after later calls for other payloads, and while other calls run.
// The bytes a caller keeps from GenFuncList / Converter.From are compared
// after calls 2..n with what they were, and then SOURCED: a kept function
// that no longer prints its own payload's rows is the violation (a mere byte
// difference that a shell does not notice is only counted).

import (
	"bytes"
	"fmt"
	"math/rand/v2"
	"os"
	"path/filepath"
	"sync"

	"github.com/magisterquis/curlrevshell/lib/shellfuncsfile"
)

// genSmall builds a fidelity-mode payload of nt tagged lines; marker makes
// the payload distinct from every other one of the round.
func genSmall(rng *rand.Rand, nt int, marker string) payload {
	g := &gen{rng: rng, clean: true, classes: map[string]int64{}}
	var lines, texts []string
	add := func(t string) {
		texts = append(texts, t)
		lines = append(lines, tag+t)
	}
	add(" " + marker + " payload marker; it's $(touch CANARY_KEEP1) `touch CANARY_KEEP2`")
	for k := 1; k < nt; k++ {
		if rng.IntN(4) == 0 {
			lines = append(lines, fillerLines[rng.IntN(len(fillerLines))])
		}
		add(g.text(texts))
	}
	return payload{text: joinLines(lines), texts: texts, classes: g.classes, clean: true}
}

func joinLines(lines []string) string {
	var b bytes.Buffer
	for _, l := range lines {
		b.WriteString(l)
		b.WriteByte('\n')
	}
	return b.String()
}

var keepSizes = [][2]int{{1, 6}, {8, 40}, {60, 300}, {500, 1400}}

var keepModes = []string{"GenFuncList-sequential", "Converter.From-sequential", "GenFuncList-concurrent", "Converter.From-concurrent"}

type kept struct {
	k    int    // payload index
	out  []byte // what the call returned (the caller's bytes)
	snap []byte // copy taken right after the call
}

// sourceOnce sources src under sh and judges it against the payload.
func (c *checker) sourceOnce(dir string, sh shellSpec, src []byte, p *payload) (o *outcome, fs []finding, ok bool) {
	fn := filepath.Join(dir, "fn.sh")
	if err := os.WriteFile(fn, src, 0o644); err != nil {
		c.r.Inconclusive("writing function file: " + err.Error())
		return nil, nil, false
	}
	defer os.Remove(fn)
	o = c.runShell(sh, "nul", dir, fn, true, true)
	c.r.Count("keep_shell_runs", 1)
	switch {
	case o.res.TimedOut:
		c.r.Inconclusive(fmt.Sprintf("%s did not finish within the infrastructure watchdog (%s)", sh.name, bigShellTimeout))
		return o, nil, false
	case o.sandboxErr != "":
		c.r.Inconclusive("sandbox: " + o.sandboxErr)
		return o, nil, false
	case o.wrapFailed():
		c.r.Inconclusive(fmt.Sprintf("the stack limit could not be raised to %d KiB for %s: %s", bigStackKB, sh.name, q(string(o.res.Stderr))))
		return o, nil, false
	}
	fid, _ := fidelityEligible(p.texts)
	var n int
	fs, n, _ = judge(o, sh.name, fid, fid && alignEligible(p.texts), p.texts)
	c.r.Count("echo_calls_observed", int64(len(o.calls)+len(o.preCalls)))
	c.r.Count("rows_compared", int64(n))
	c.r.Count("keep_rows_compared", int64(n))
	return o, fs, true
}

func sameObservation(a, b *outcome) bool {
	return sameCalls(a.calls, b.calls) && sameCalls(a.preCalls, b.preCalls) && a.done == b.done && a.sourced == b.sourced &&
		fmt.Sprint(a.leftovers) == fmt.Sprint(b.leftovers) && bytes.Equal(a.res.Stderr, b.res.Stderr)
}

func (c *checker) keep(j int) {
	r := c.r
	rng := r.Rng("keep", j)
	mode := j % len(keepModes)
	viaFrom := mode == 1 || mode == 3
	r.Eval(1)
	r.Count("keep_rounds", 1)
	r.Count("keep_rounds:"+keepModes[mode], 1)

	dir := filepath.Join(r.Work, fmt.Sprintf("k%d", j))
	if err := os.MkdirAll(dir, 0o755); err != nil {
		r.Inconclusive("mkdir: " + err.Error())
		return
	}
	defer os.RemoveAll(dir)

	// the payloads of this round: different sizes, smaller and larger ones
	np := 4 + rng.IntN(4)
	ps := make([]payload, np)
	files := make([]string, np)
	for k := range ps {
		sz := keepSizes[rng.IntN(len(keepSizes))]
		if mode >= 2 { // hundreds of calls per round: smaller payloads
			sz = keepSizes[rng.IntN(len(keepSizes)-1)]
		}
		if k == 0 {
			sz = keepSizes[1+rng.IntN(2)]
		}
		ps[k] = genSmall(rng, sz[0]+rng.IntN(sz[1]-sz[0]+1), fmt.Sprintf("keep_%d_%d", j, k))
		r.Count("tabdoc_lines", int64(len(ps[k].texts)))
		if viaFrom {
			files[k] = filepath.Join(dir, fmt.Sprintf("funcs%d.sh", k))
			if err := os.WriteFile(files[k], []byte(ps[k].text), 0o644); err != nil {
				r.Inconclusive("writing payload: " + err.Error())
				return
			}
		}
	}
	r.Distinct(fmt.Sprintf("keep/%d/%s", j, clip(ps[0].text, 2048)))
	newConv := func() *shellfuncsfile.Converter {
		cv := shellfuncsfile.NewDefaultConverter()
		cv.AddListFunction = true
		return cv
	}
	call := func(cv *shellfuncsfile.Converter, k int) ([]byte, error) {
		if viaFrom {
			return cv.From(files[k])
		}
		return shellfuncsfile.GenFuncList(ps[k].text)
	}
	sh := shells[(j/len(keepModes))%len(shells)]
	witness := func(k int, was, now []byte, extra map[string]any) map[string]any {
		w := map[string]any{
			"mode":           keepModes[mode],
			"shell":          sh.name,
			"payload":        k,
			"payload_lines":  lineWitness(ps[k].texts),
			"payload_sizes":  payloadSizes(ps),
			"result_was":     q(clip(string(was[len(was)-min(len(was), funcLen(was)):]), 2048)),
			"result_is":      q(clip(string(now[len(now)-min(len(now), funcLen(now)):]), 2048)),
			"result_was_len": len(was),
			"result_is_len":  len(now),
		}
		for a, b := range extra {
			w[a] = b
		}
		return w
	}

	if mode < 2 {
		// ---- sequential: call 1, then calls 2..n, everything kept
		cvs := []*shellfuncsfile.Converter{newConv(), newConv()}
		var ks []kept
		order := []int{0}
		for n := 1 + rng.IntN(6); n > 0; n-- {
			order = append(order, rng.IntN(np)) // also payload 0 again
		}
		for t, k := range order {
			out, err := call(cvs[t%2], k)
			if err != nil {
				r.Violate("keep", j, "function-does-not-parse", fmt.Sprintf("keep round %d: %s failed: %v", j, keepModes[mode], err), map[string]any{"tabdoc_lines": lineWitness(ps[k].texts)})
				return
			}
			ks = append(ks, kept{k, out, bytes.Clone(out)})
		}
		r.Count("keep_later_calls", int64(len(order)-1))
		for t := range ks[:len(ks)-1] {
			r.Count("keep_results_compared_after_later_calls", 1)
			if bytes.Equal(ks[t].out, ks[t].snap) {
				continue
			}
			// the caller's bytes changed: does a shell notice?
			r.Count("keep_results_changed_bytes", 1)
			now := bytes.Clone(ks[t].out)
			oWas, _, ok1 := c.sourceOnce(dir, sh, ks[t].snap, &ps[ks[t].k])
			oNow, fsNow, ok2 := c.sourceOnce(dir, sh, now, &ps[ks[t].k])
			if !ok1 || !ok2 {
				return
			}
			if sameObservation(oWas, oNow) && len(fsNow) == 0 {
				r.Count("keep_results_changed_bytes_but_not_behaviour", 1)
				continue
			}
			what := "prints other rows than before"
			if len(fsNow) > 0 {
				what = fsNow[0].key + ": " + fsNow[0].what
			}
			r.Violate("keep", j, "kept-result-changed", fmt.Sprintf("keep round %d (%s): the result of call %d (payload %d) was altered by the %d later calls for other payloads; sourced now, it %s", j, keepModes[mode], t+1, ks[t].k, len(ks)-1-t, what),
				witness(ks[t].k, ks[t].snap, now, map[string]any{"call": t + 1, "calls_in_order_payloads": order, "stub_output_was": stubWitness(oWas), "stub_output_is": stubWitness(oNow)}))
			return
		}
		// the functional observation proper: the function kept from call 1, as it
		// is NOW, sourced and judged against payload 1
		o, fs, ok := c.sourceOnce(dir, sh, ks[0].out, &ps[0])
		if !ok {
			return
		}
		r.Count("keep_first_results_sourced_after_later_calls", 1)
		for _, f := range fs {
			r.Violate("keep", j, f.key, fmt.Sprintf("keep round %d (%s): the result of call 1, sourced after %d later calls: %s", j, keepModes[mode], len(ks)-1, f.what),
				witness(0, ks[0].snap, ks[0].out, map[string]any{"calls_in_order_payloads": order, "stub_output": stubWitness(o)}))
			break
		}
		return
	}

	// ---- concurrent: what each payload gives when nothing else of this round runs ...
	expected := make([][]byte, np)
	cv0 := newConv()
	for k := range ps {
		out, err := call(cv0, k)
		if err != nil {
			r.Violate("keep", j, "function-does-not-parse", fmt.Sprintf("keep round %d: %s failed: %v", j, keepModes[mode], err), map[string]any{"tabdoc_lines": lineWitness(ps[k].texts)})
			return
		}
		expected[k] = bytes.Clone(out)
	}
	// ... and what the callers get and keep while others are calling
	workers, iters := 4, 12
	if viaFrom {
		workers, iters = 8, 25
	}
	seqs := make([][]int, workers)
	for w := range seqs {
		seqs[w] = make([]int, iters)
		for t := range seqs[w] {
			seqs[w][t] = rng.IntN(np)
		}
	}
	type miss struct {
		k     int
		got   []byte
		stage string
	}
	var mu sync.Mutex
	var misses []miss
	var errs []error
	var compared int64
	var wg sync.WaitGroup
	for w := 0; w < workers; w++ {
		wg.Add(1)
		go func(w int) {
			defer wg.Done()
			cv := newConv()
			var held []byte
			heldK := -1
			n := int64(0)
			note := func(k int, got []byte, stage string) {
				mu.Lock()
				if len(misses) < 4 {
					misses = append(misses, miss{k, bytes.Clone(got), stage})
				}
				mu.Unlock()
			}
			for _, k := range seqs[w] {
				out, err := call(cv, k)
				if err != nil {
					mu.Lock()
					errs = append(errs, err)
					mu.Unlock()
					return
				}
				n++
				if !bytes.Equal(out, expected[k]) {
					note(k, out, "as returned")
				}
				if heldK >= 0 { // the previous result, kept across this call
					n++
					if !bytes.Equal(held, expected[heldK]) {
						note(heldK, held, "kept across a later call")
					}
				}
				held, heldK = out, k
			}
			mu.Lock()
			compared += n
			mu.Unlock()
		}(w)
	}
	wg.Wait()
	r.Count("keep_concurrent_results_compared", compared)
	if len(errs) > 0 {
		r.Violate("keep", j, "function-does-not-parse", fmt.Sprintf("keep round %d: %s failed under concurrency: %v", j, keepModes[mode], errs[0]), nil)
		return
	}
	for _, m := range misses {
		r.Count("keep_results_changed_bytes", 1)
		oWas, _, ok1 := c.sourceOnce(dir, sh, expected[m.k], &ps[m.k])
		oNow, fsNow, ok2 := c.sourceOnce(dir, sh, m.got, &ps[m.k])
		if !ok1 || !ok2 {
			return
		}
		if sameObservation(oWas, oNow) && len(fsNow) == 0 {
			r.Count("keep_results_changed_bytes_but_not_behaviour", 1)
			continue
		}
		what := "prints other rows than the function generated for the same payload alone"
		if len(fsNow) > 0 {
			what = fsNow[0].key + ": " + fsNow[0].what
		}
		r.Violate("keep", j, "concurrent-result-wrong", fmt.Sprintf("keep round %d (%s, %d callers): a result for payload %d (%s) is not that payload's function; sourced, it %s", j, keepModes[mode], workers, m.k, m.stage, what),
			witness(m.k, expected[m.k], m.got, map[string]any{"stage": m.stage, "stub_output_alone": stubWitness(oWas), "stub_output_is": stubWitness(oNow)}))
		return
	}
	// the function for payload 1 generated alone, judged (so that "expected" is
	// known to be a correct listing, not merely a stable one)
	o, fs, ok := c.sourceOnce(dir, sh, expected[0], &ps[0])
	if !ok {
		return
	}
	r.Count("keep_reference_results_sourced", 1)
	for _, f := range fs {
		r.Violate("keep", j, f.key, fmt.Sprintf("keep round %d (%s): payload 1 generated alone: %s", j, keepModes[mode], f.what),
			witness(0, expected[0], expected[0], map[string]any{"stub_output": stubWitness(o)}))
		break
	}
}

func payloadSizes(ps []payload) []int {
	out := make([]int, len(ps))
	for k := range ps {
		out[k] = len(ps[k].texts)
	}
	return out
}

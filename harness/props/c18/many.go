package c18

// Engine "many": MANY ROWS.  Payloads with thousands (thorough: up to 200,000)
// of '# TABDOC:' lines whose name lengths vary between regions of the payload,
// with exact and re-spaced duplicates placed far apart.  The listing of such a
// payload must still be ONE table: one row per distinct line over the whole
// payload, sorted, the description column at the same offset in every row.

import (
	"bytes"
	"fmt"
	"math/rand/v2"
	"os"
	"path/filepath"
	"strconv"
	"strings"
	"unicode/utf8"

	"github.com/magisterquis/curlrevshell/lib/shellfuncsfile"
)

// manyBases are the numbers of tagged lines (a little is added per payload).
var manyBasesQuick = []int{1000, 1300, 2100, 2600, 3200, 4200, 5200, 6400, 8300, 10300, 14000, 20000}
var manyBasesThorough = append(append([]int{}, manyBasesQuick...), 30000, 50000, 100000, 200000)

func manySize(thorough bool, rng *rand.Rand, i int) int {
	b := manyBasesQuick
	if thorough {
		b = manyBasesThorough
	}
	return b[i%len(b)] + rng.IntN(200)
}

// name-length regimes of a region (inclusive bounds, bytes)
var manyRegimes = [][2]int{{1, 5}, {3, 8}, {6, 11}, {12, 28}, {30, 60}}

// distances (in tagged lines) at which duplicates are placed, when the
// payload is long enough; each gets a jitter of +-64 lines
var manyDistances = []int{512, 1024, 2048, 3000, 4096, 6000, 10000, 20000, 50000, 100000}

const (
	nameAlpha = "abcdefghijklmnopqrstuvwxyz0123456789_ABCXYZ"
	nameSpice = "'\"\\$`;&|(){}<>*?!~#=%^-.,:@[]+/"
)

func (g *gen) asciiName(n int) string {
	b := make([]byte, n)
	for k := range b {
		if g.rng.IntN(7) == 0 {
			b[k] = nameSpice[g.rng.IntN(len(nameSpice))]
		} else {
			b[k] = nameAlpha[g.rng.IntN(len(nameAlpha))]
		}
	}
	return string(b)
}

// respace returns a text with the same (name, description) and other spacing.
func (g *gen) respace(t string) string {
	n, d, empty := refSplit(t)
	if empty {
		return strings.Repeat(" ", g.rng.IntN(4))
	}
	if d == "" {
		return g.spaces(0) + n + g.spaces(0)
	}
	return g.spaces(0) + n + g.spaces(1) + d + g.spaces(0)
}

type manyRegion struct {
	From, To int // tagged-line indices [From, To)
	MinName  int
	MaxName  int
}

type manyDup struct {
	Src, Dst int
	Respaced bool
}

type manyPayload struct {
	payload
	regions  []manyRegion
	outliers []int
	dups     []manyDup
	wild     bool
}

var manyWords = []string{"Print", "List", "Upload", "Fetch", "It's", "Don't", "Remove", "Show", "the", "a", "file's", "host", "\"quoted\"", "$(touch CANARY_MANY1)", "`touch CANARY_MANY2`", "; touch CANARY_MANY3 ;", "'; touch CANARY_MANY4; echo '", "| tee CANARY_MANY5", "> CANARY_MANY6", "\\", "\\'", "&&", "*"}

// genMany builds many-rows payload i with nt tagged lines.
func genMany(rng *rand.Rand, i, nt int) manyPayload {
	g := &gen{rng: rng, clean: true, classes: map[string]int64{}}
	mp := manyPayload{wild: i%4 == 3}
	texts := make([]string, 0, nt)

	// regions with their own name-length regime
	reg := -1
	if i%3 == 0 {
		reg = 0 // only names shorter than the function's own in the first region
	}
	for at := 0; at < nt; {
		ln := 100 + rng.IntN(1400)
		if rng.IntN(5) == 0 {
			ln = 1500 + rng.IntN(4000)
		}
		if at == 0 && reg == 0 {
			ln = 1100 + rng.IntN(2000) // more than the first thousand lines
		}
		if at+ln > nt {
			ln = nt - at
		}
		if reg < 0 || at > 0 {
			for {
				k := rng.IntN(len(manyRegimes))
				if k != reg {
					reg = k
					break
				}
			}
		}
		mp.regions = append(mp.regions, manyRegion{at, at + ln, manyRegimes[reg][0], manyRegimes[reg][1]})
		at += ln
	}
	// single outlier-long names
	outlier := map[int]bool{}
	if rng.IntN(2) == 0 {
		for k, n := 0, 1+rng.IntN(3); k < n; k++ {
			at := rng.IntN(nt)
			if i%3 == 0 && at < mp.regions[0].To {
				continue // the first region keeps its short names
			}
			outlier[at] = true
			mp.outliers = append(mp.outliers, at)
		}
	}
	for _, rg := range mp.regions {
		for k := rg.From; k < rg.To; k++ {
			if rng.IntN(50) == 0 {
				g.classes["empty-text"]++
				texts = append(texts, strings.Repeat(" ", rng.IntN(3)))
				continue
			}
			nl := rg.MinName + rng.IntN(rg.MaxName-rg.MinName+1)
			if outlier[k] {
				nl = 64 + rng.IntN(40)
			}
			name := g.asciiName(nl)
			if mp.wild && rng.IntN(4) == 0 {
				if w := g.name(); len(w) <= 24 {
					name = name[:len(name)/2] + w + name[len(name)/2:]
					name = g.fixEdges(strings.ReplaceAll(name, " ", ""))
				}
			}
			var d string
			switch rng.IntN(8) {
			case 0:
				d = g.desc()
			case 1:
				d = "" // name only
			default:
				var sb strings.Builder
				for w, n := 0, 1+rng.IntN(5); w < n; w++ {
					if w > 0 {
						sb.WriteString(strings.Repeat(" ", 1+rng.IntN(2)))
					}
					sb.WriteString(manyWords[rng.IntN(len(manyWords))])
				}
				if rng.IntN(2) == 0 {
					sb.WriteString(" " + strconv.Itoa(k))
				}
				d = g.fixEdges(strings.Trim(sb.String(), " "))
			}
			if d == "" {
				texts = append(texts, g.spaces(0)+name+g.spaces(0))
			} else {
				texts = append(texts, g.spaces(0)+name+g.spaces(1)+d+g.spaces(0))
			}
		}
	}

	// duplicates, far apart
	used := map[int]bool{}
	place := func(src, dst int) {
		if src < 0 || dst >= nt || src >= dst || used[src] || used[dst] {
			return
		}
		if _, _, empty := refSplit(texts[src]); empty {
			return
		}
		used[src], used[dst] = true, true
		d := manyDup{Src: src, Dst: dst, Respaced: rng.IntN(2) == 0}
		if d.Respaced {
			texts[dst] = g.respace(texts[src])
		} else {
			texts[dst] = texts[src]
		}
		g.classes["duplicate"]++
		mp.dups = append(mp.dups, d)
	}
	for _, dist := range manyDistances {
		if dist+80 >= nt {
			continue
		}
		for k, n := 0, 3+rng.IntN(4); k < n; k++ {
			d := dist + rng.IntN(129) - 64
			place0 := rng.IntN(nt - d)
			place(place0, place0+d)
		}
	}
	edge := nt / 10
	if edge > 40 {
		edge = 40
	}
	for k := 0; k < 4; k++ { // across the whole payload
		place(rng.IntN(edge), nt-1-rng.IntN(edge))
	}
	for k, n := 0, 4+nt/500; k < n; k++ { // anywhere
		a, b := rng.IntN(nt), rng.IntN(nt)
		if a > b {
			a, b = b, a
		}
		place(a, b)
	}

	// the payload: tagged lines with a filler line now and then
	var sb strings.Builder
	for _, t := range texts {
		if rng.IntN(10) == 0 {
			sb.WriteString(fillerLines[rng.IntN(len(fillerLines))])
			sb.WriteByte('\n')
		}
		sb.WriteString(tag)
		sb.WriteString(t)
		sb.WriteByte('\n')
	}
	mp.payload = payload{text: sb.String(), texts: texts, classes: g.classes, clean: true}
	return mp
}

// manyStats measures, on the final texts and by the reference split, what the
// payload exercises (independently of how the generator meant it).
type manyStats struct {
	rows                           int // distinct non-empty (name, description)
	dupExact, dupRespaced          int // repeated lines >= 1000 lines after the first occurrence
	d1000, d2000, d4000, d10000    int
	dWhole                         int // >= 90% of the payload apart
	windowWidths                   int // distinct maximal name widths over windows of 500 tagged lines
	firstThousandNarrower          bool
	firstThousandNarrowerThanOwnFn bool
}

func measureMany(texts []string) manyStats {
	var st manyStats
	type occ struct {
		at   int
		text string
	}
	first := map[pair]occ{}
	widths := map[int]bool{}
	wmax, all, first1000 := 0, 0, 0
	for k, t := range texts {
		if k > 0 && k%500 == 0 {
			widths[wmax] = true
			wmax = 0
		}
		n, d, empty := refSplit(t)
		if empty {
			continue
		}
		w := utf8.RuneCountInString(n)
		if w > wmax {
			wmax = w
		}
		if w > all {
			all = w
		}
		if k < 1000 && w > first1000 {
			first1000 = w
		}
		p := pair{n, d}
		f, seen := first[p]
		if !seen {
			first[p] = occ{k, t}
			continue
		}
		dist := k - f.at
		if dist < 1000 {
			continue
		}
		if t == f.text {
			st.dupExact++
		} else {
			st.dupRespaced++
		}
		st.d1000++
		if dist >= 2000 {
			st.d2000++
		}
		if dist >= 4000 {
			st.d4000++
		}
		if dist >= 10000 {
			st.d10000++
		}
		if dist*10 >= len(texts)*9 {
			st.dWhole++
		}
	}
	widths[wmax] = true
	st.rows = len(first)
	st.windowWidths = len(widths)
	st.firstThousandNarrower = first1000 < all
	st.firstThousandNarrowerThanOwnFn = first1000 < len(selfName)
	return st
}

func (c *checker) many(i int) {
	r := c.r
	rng := r.Rng("many", i)
	nt := manySize(r.Thorough(), rng, i)
	mp := genMany(rng, i, nt)
	r.Eval(1)
	r.Count("many_payloads", 1)
	r.Count("tabdoc_lines", int64(len(mp.texts)))
	r.Count("many_tabdoc_lines", int64(len(mp.texts)))
	for cl, n := range mp.classes {
		r.Count("quote_breaker_fragments_used:"+cl, n)
	}
	texts := refTexts(mp.text)
	if len(texts) != len(mp.texts) {
		r.Inconclusive(fmt.Sprintf("many-rows payload %d: generator and reference disagree on the tagged lines (%d vs %d)", i, len(mp.texts), len(texts)))
		return
	}
	st := measureMany(texts)
	r.Count("many_distinct_rows_expected", int64(st.rows))
	r.Count("many_duplicates_1000_or_more_lines_apart", int64(st.d1000))
	r.Count("many_duplicates_2000_or_more_lines_apart", int64(st.d2000))
	r.Count("many_duplicates_4000_or_more_lines_apart", int64(st.d4000))
	r.Count("many_duplicates_10000_or_more_lines_apart", int64(st.d10000))
	r.Count("many_duplicates_across_the_whole_payload", int64(st.dWhole))
	r.Count("many_far_duplicates_exact", int64(st.dupExact))
	r.Count("many_far_duplicates_respaced", int64(st.dupRespaced))
	if st.windowWidths >= 2 {
		r.Count("many_payloads_name_width_varies_between_regions", 1)
	}
	if st.firstThousandNarrower {
		r.Count("many_payloads_first_1000_lines_narrower_than_later_ones", 1)
	}
	if st.firstThousandNarrowerThanOwnFn {
		r.Count("many_payloads_first_1000_lines_narrower_than_own_row", 1)
	}
	for _, lim := range []int{2000, 10000, 100000} {
		if len(texts) >= lim {
			r.Count(fmt.Sprintf("many_payloads_with_%d_or_more_lines", lim), 1)
		}
	}
	// distinct set of texts (a cheap signature: the generator never repeats one)
	r.Distinct(fmt.Sprintf("many/%d/%d/%s", i, len(texts), clip(mp.text, 4096)))

	fidelity, why := fidelityEligible(texts)
	aligned := fidelity && alignEligible(texts)
	if fidelity {
		r.Count("many_fidelity_payloads", 1)
	} else {
		r.Count("many_quote_safety_only_payloads:"+why, 1)
	}
	if aligned {
		r.Count("many_one_table_payloads", 1)
	}

	dir := filepath.Join(r.Work, fmt.Sprintf("m%d", i))
	if err := os.MkdirAll(dir, 0o755); err != nil {
		r.Inconclusive("mkdir: " + err.Error())
		return
	}
	defer os.RemoveAll(dir)

	// quick: one shell per payload (by index); thorough: all three
	shs := []shellSpec{shells[i%len(shells)]}
	if r.Thorough() {
		shs = nil
	}
	stub := "nul" // the od-based stub forks twice per row

	path := "GenFuncList"
	var src []byte
	if i%4 == 2 {
		path = "Converter.From"
		f := filepath.Join(dir, "funcs.sh")
		if err := os.WriteFile(f, []byte(mp.text), 0o644); err != nil {
			r.Inconclusive("writing payload: " + err.Error())
			return
		}
		cv := shellfuncsfile.NewDefaultConverter()
		cv.AddListFunction = true
		out, err := cv.From(f)
		os.Remove(f)
		if err != nil {
			r.Violate("many", i, "function-does-not-parse", fmt.Sprintf("many-rows payload %d (%d tagged lines): Converter.From failed: %v", i, len(texts), err), map[string]any{"tabdoc_lines": lineWitness(texts)})
			return
		}
		if !bytes.HasPrefix(out, []byte(mp.text)) {
			r.Violate("many", i, "row-altered", fmt.Sprintf("many-rows payload %d: Converter.From output does not start with the .sh file's contents", i), map[string]any{"tabdoc_lines": lineWitness(texts), "output_head": q(clip(string(out), 1024))})
			return
		}
		src = out
	} else {
		fn, err := shellfuncsfile.GenFuncList(mp.text)
		if err != nil {
			r.Violate("many", i, "function-does-not-parse", fmt.Sprintf("many-rows payload %d (%d tagged lines): GenFuncList failed: %v", i, len(texts), err), map[string]any{"tabdoc_lines": lineWitness(texts)})
			return
		}
		src = fn
	}
	r.Count("many_payloads_through:"+path, 1)

	reported := map[string]bool{}
	c.check(checkReq{dir: dir, src: string(src), stub: stub, fidelity: fidelity, aligned: aligned, big: true, texts: texts, shells: shs, prefix: "many_"},
		func(sh shellSpec, o *outcome, fs []finding) {
			for _, f := range fs {
				if reported[f.key] {
					continue
				}
				reported[f.key] = true
				dups := mp.dups
				if len(dups) > 40 {
					dups = dups[:40]
				}
				r.Violate("many", i, f.key, fmt.Sprintf("many-rows payload %d (%d tagged lines, %s): %s", i, len(texts), path, f.what), map[string]any{
					"shell":                         sh.name,
					"path":                          path,
					"tagged_lines":                  len(texts),
					"distinct_rows_expected":        st.rows + 1,
					"echo_calls":                    len(o.calls),
					"regions_of_name_lengths":       mp.regions,
					"outlier_long_names_at":         mp.outliers,
					"duplicates_placed_first_40":    dups,
					"first_tabdoc_lines":            lineWitness(texts),
					"function_head":                 clip(string(src[len(src)-min(len(src), funcLen(src)):]), 4096),
					"stub_output":                   stubWitness(o),
					"fidelity_check":                fidelity,
					"one_table_check":               aligned,
					"far_duplicates_1000_or_more":   st.d1000,
					"distinct_window_name_widths":   st.windowWidths,
					"first_1000_narrower_than_rest": st.firstThousandNarrower,
				})
			}
		})
}

// funcLen is the length of the generated function at the end of src.
func funcLen(src []byte) int {
	if k := bytes.LastIndex(src, []byte(selfName+"() {")); k >= 0 {
		return len(src) - k
	}
	return len(src)
}

// Package c17: the Ctrl+I payload is exactly the eligible files, converted, in
// name order.  A reference model written from the documented contract is
// compared with lib/shellfuncsfile's Converter.From (in-process, under the race
// detector) and with what the real binaries print, over generated directory
// trees and filter tables.  A mismatch is diagnosed (which parts are extra,
// missing, misordered, converted by the wrong filter, not newline-terminated)
// so that the violation key names the defect class, not the tree.
package c17

import (
	"bytes"
	"fmt"
	"io"
	"math/rand/v2"
	"os"
	"path/filepath"
	"runtime"
	"sort"
	"strconv"
	"strings"
	"sync"
	"syscall"
	"time"

	"github.com/magisterquis/curlrevshell/lib/shellfuncsfile"
	"github.com/magisterquis/curlrevshell/verifharness/mon"
)

const Level = "exploration"

// ---- filter tables ----------------------------------------------------------

// A filt is one row of a filter table.  Variants:
//
//	shell, perl          the library's own FromShell / FromPerl
//	tag                  <"pattern"|"name"|"content">            (no trailing newline)
//	tag-nl               the same followed by one newline
//	tag-nl2              the same followed by two newlines
//	tag-empty-on-empty   like tag, but no output at all for an empty file
//	empty                never any output (the file is swallowed)
type filt struct {
	Pattern string `json:"pattern"`
	Variant string `json:"variant"`
}

type table struct {
	Kind    string   `json:"kind"`
	Base    string   `json:"base"`              // default = NewDefaultConverter(), zero = Converter{}
	Filters []filt   `json:"filters"`           // sorted bytewise by pattern
	Removed []string `json:"removed,omitempty"` // default patterns removed with SetFilter(p, nil)
	Tagged  bool     `json:"tagged"`            // every filter is a tagging variant
}

var defaultPatterns = []string{"*.pl", "*.sh", "*.subr"}

var poolPatterns = []string{
	"a*", "*.*", "[ab]*.sh", "?.sh", "*", "*.sh~", "*.s[a-z]", "*.tar.*", "[A-Z]*",
	"* *", `\[*`, "*.SH", "*.txt", "*.s*", "#*", "*.sh.bak", "[^a]*.sh", "a?b*", "*.p?",
}

var tagVariants = []string{"tag", "tag", "tag", "tag-nl", "tag-nl", "tag-nl", "tag-nl2", "tag-empty-on-empty", "empty"}

// first is the reference's filter choice: patterns in bytewise order, the
// first that filepath.Match'es the base name.
func (t *table) first(base string) *filt {
	for i := range t.Filters {
		if ok, _ := filepath.Match(t.Filters[i].Pattern, base); ok {
			return &t.Filters[i]
		}
	}
	return nil
}

func (t *table) byPattern(p string) *filt {
	for i := range t.Filters {
		if t.Filters[i].Pattern == p {
			return &t.Filters[i]
		}
	}
	return nil
}

func (t *table) sig() string {
	var sb strings.Builder
	sb.WriteString(t.Kind)
	for _, f := range t.Filters {
		fmt.Fprintf(&sb, "|%s=%s", f.Pattern, f.Variant)
	}
	return sb.String()
}

func genTable(rng *rand.Rand) *table {
	t := &table{}
	set := map[string]string{}
	x := rng.IntN(100)
	switch {
	case x < 28:
		t.Kind, t.Base = "default", "default"
		set["*.pl"], set["*.sh"], set["*.subr"] = "perl", "shell", "shell"
	case x < 34:
		t.Kind, t.Base = "default-some-removed", "default"
		set["*.pl"], set["*.sh"], set["*.subr"] = "perl", "shell", "shell"
		for k := 0; k < 1+rng.IntN(2); k++ {
			p := defaultPatterns[rng.IntN(3)]
			if _, ok := set[p]; ok {
				delete(set, p)
				t.Removed = append(t.Removed, p)
			}
		}
	case x < 96:
		// User-modified tables of tagging filters on NewDefaultConverter():
		// each default pattern is overridden or removed, overlapping extras
		// are added.  (SetFilter on a zero Converter{} panics on this tree —
		// nil map — which is outside C17; such tables are therefore always
		// built on NewDefaultConverter with the defaults removed.)
		t.Kind, t.Base, t.Tagged = "tagged", "default", true
		keep := 70
		if x >= 72 {
			t.Kind, keep = "tagged-defaults-mostly-removed", 25
		}
		for _, p := range defaultPatterns {
			if rng.IntN(100) < keep {
				set[p] = tagVariants[rng.IntN(len(tagVariants))]
			} else {
				t.Removed = append(t.Removed, p)
			}
		}
		for k := rng.IntN(5); k > 0; k-- {
			set[poolPatterns[rng.IntN(len(poolPatterns))]] = tagVariants[rng.IntN(len(tagVariants))]
		}
		if len(set) == 0 {
			set["*.sh"] = "tag"
			t.Removed = t.Removed[:0]
			for _, p := range defaultPatterns {
				if p != "*.sh" {
					t.Removed = append(t.Removed, p)
				}
			}
		}
	default:
		t.Kind, t.Base, t.Tagged = "zero-no-filters", "zero", true
	}
	for p, v := range set {
		t.Filters = append(t.Filters, filt{p, v})
	}
	sort.Slice(t.Filters, func(i, j int) bool { return t.Filters[i].Pattern < t.Filters[j].Pattern })
	sort.Strings(t.Removed)
	return t
}

// apply is what a filter returns for (name, content), before the converter's
// newline rule.
func apply(f *filt, name string, content []byte) []byte {
	switch f.Variant {
	case "shell":
		return content
	case "perl":
		// Per-file conversion correctness is C16's business.
		b, err := shellfuncsfile.FromPerl(name, bytes.NewReader(content))
		if err != nil {
			panic("FromPerl: " + err.Error())
		}
		return b
	case "empty":
		return nil
	case "tag-empty-on-empty":
		if len(content) == 0 {
			return nil
		}
	}
	s := "<" + strconv.Quote(f.Pattern) + "|" + strconv.Quote(filepath.Base(name)) + "|" + strconv.Quote(string(content)) + ">"
	switch f.Variant {
	case "tag-nl":
		s += "\n"
	case "tag-nl2":
		s += "\n\n"
	}
	return []byte(s)
}

// nlTerm is the newline rule: a non-empty part ends in a newline.
func nlTerm(b []byte) []byte {
	if len(b) > 0 && b[len(b)-1] != '\n' {
		return append(b[:len(b):len(b)], '\n')
	}
	return b
}

// isDefault reports whether f is a row of NewDefaultConverter()'s own table.
func isDefault(f filt) bool {
	return (f.Pattern == "*.pl" && f.Variant == "perl") || ((f.Pattern == "*.sh" || f.Pattern == "*.subr") && f.Variant == "shell")
}

// mkFilter is the Filter installed for a row.
func mkFilter(f filt) shellfuncsfile.Filter {
	switch f.Variant {
	case "shell":
		return shellfuncsfile.FromShell
	case "perl":
		return shellfuncsfile.FromPerl
	}
	return func(name string, r io.Reader) ([]byte, error) {
		b, err := io.ReadAll(r)
		if err != nil {
			return nil, err
		}
		return apply(&f, name, b), nil
	}
}

// install builds the converter under test for a table.
func install(t *table) *shellfuncsfile.Converter {
	if t.Base == "zero" {
		return &shellfuncsfile.Converter{}
	}
	c := shellfuncsfile.NewDefaultConverter()
	for _, p := range t.Removed {
		c.SetFilter(p, nil)
	}
	for _, f := range t.Filters {
		if isDefault(f) {
			continue // the untouched default
		}
		c.SetFilter(f.Pattern, mkFilter(f))
	}
	return c
}

// ---- reference model (from the property statement) ----------------------------

// refDir: top-level entries, not starting with '.', that stat (following
// symlinks) to a regular file and match a pattern; bytewise name order; first
// matching pattern; newline-terminated parts; concatenated.  A matching,
// non-dot name that cannot be stat'ed is not covered by the statement; the
// generator never produces one (the reference would skip it).
func refDir(t *table, dir string) ([]byte, []string, error) {
	des, err := os.ReadDir(dir)
	if err != nil {
		return nil, nil, err
	}
	var names []string
	for _, de := range des {
		n := de.Name()
		if strings.HasPrefix(n, ".") || t.first(n) == nil {
			continue
		}
		fi, err := os.Stat(filepath.Join(dir, n))
		if err != nil || !fi.Mode().IsRegular() {
			continue
		}
		names = append(names, n)
	}
	sort.Strings(names)
	var out []byte
	for _, n := range names {
		b, err := os.ReadFile(filepath.Join(dir, n))
		if err != nil {
			return nil, nil, err
		}
		out = append(out, nlTerm(apply(t.first(n), n, b))...)
	}
	return out, names, nil
}

// refFile: converted content by the first matching pattern, or the content
// unchanged.
func refFile(t *table, path string) ([]byte, error) {
	b, err := os.ReadFile(path)
	if err != nil {
		return nil, err
	}
	if f := t.first(filepath.Base(path)); f != nil {
		return nlTerm(apply(f, path, b)), nil
	}
	return b, nil
}

func refSource(t *table, src string) ([]byte, error) {
	fi, err := os.Stat(src)
	if err != nil {
		return nil, err
	}
	if fi.IsDir() {
		b, _, err := refDir(t, src)
		return b, err
	}
	return refFile(t, src)
}

// ---- generated trees --------------------------------------------------------

type kind int

const (
	kFile kind = iota
	kLinkFile
	kLinkDir
	kDangling
	kDir
	kSocket // a unix socket inode (mknod): non-regular, and opening it fails at once instead of blocking
)

func (k kind) String() string {
	return [...]string{"file", "link->file", "link->dir", "dangling-link", "dir", "socket"}[k]
}

type entry struct {
	Name     string
	Kind     kind
	Content  []byte // regular file: its content; valid file link: the target's content
	Class    string // content class
	Target   string // symlink target as written
	Children []*entry
	Marker   bool // content carries a marker unique in the tree
	Nested   bool // lives below a sub-directory (or behind a directory link)
	Lock     bool // editor lock link  .#name -> user@host.pid:boot
	Odd      bool // dangling link whose resolution fails with ENOTDIR / ENAMETOOLONG / ELOOP
}

func (e *entry) dot() bool     { return strings.HasPrefix(e.Name, ".") }
func (e *entry) regular() bool { return e.Kind == kFile || e.Kind == kLinkFile }

func (e *entry) describe() string {
	switch e.Kind {
	case kFile:
		return fmt.Sprintf("%q file %dB %s", e.Name, len(e.Content), e.Class)
	case kLinkFile:
		return fmt.Sprintf("%q link->file %q %dB %s", e.Name, e.Target, len(e.Content), e.Class)
	case kLinkDir:
		return fmt.Sprintf("%q link->dir %q", e.Name, e.Target)
	case kDangling:
		return fmt.Sprintf("%q dangling-link %q", e.Name, e.Target)
	case kSocket:
		return fmt.Sprintf("%q socket", e.Name)
	}
	var ch []string
	for _, c := range e.Children {
		ch = append(ch, c.describe())
	}
	return fmt.Sprintf("%q dir [%s]", e.Name, strings.Join(ch, "; "))
}

// materialize creates e in dir.
func materialize(e *entry, dir string) error {
	p := filepath.Join(dir, e.Name)
	switch e.Kind {
	case kFile:
		return os.WriteFile(p, e.Content, 0o644)
	case kLinkFile, kLinkDir, kDangling:
		return os.Symlink(e.Target, p)
	case kSocket:
		return syscall.Mknod(p, syscall.S_IFSOCK|0o644, 0)
	}
	if err := os.Mkdir(p, 0o755); err != nil {
		return err
	}
	for _, c := range e.Children {
		if err := materialize(c, p); err != nil {
			return err
		}
	}
	return nil
}

// A view is one directory given to the converter, with the model of its
// entries.
type view struct {
	dir string
	top []*entry
}

func collectNested(es []*entry, out *[]*entry) {
	for _, e := range es {
		if e.Kind == kDir || e.Kind == kLinkDir {
			for _, c := range e.Children {
				*out = append(*out, c)
			}
			collectNested(e.Children, out)
		}
	}
}

func (v *view) nested() []*entry {
	var out []*entry
	collectNested(v.top, &out)
	return out
}

func (v *view) listing() []string {
	var l []string
	for _, e := range v.top {
		l = append(l, e.describe())
	}
	return l
}

func (v *view) sig() string {
	l := v.listing()
	sort.Strings(l)
	return strings.Join(l, "\n")
}

var stems = []string{
	"a", "b", "c", "A", "B", "C", "Z", "aa", "ab", "Ab", "a b", " a", "a ", "a[1]", "[ab]", "[a-z]", "[",
	"a*", "*", "?", "x?y", `a\b`, "10", "9", "2", "_x", "-n", "--", "~", "\u00e9", "\u00e4b", "a\nb", "a'b",
	`a"b`, "a|b", "<a>", "a.tar", "a.b.c", "#a", "a#", "$HOME", "%s", "a]", "b[", "zz",
}
var exts = []string{
	".sh", ".sh", ".sh", ".sh", ".pl", ".pl", ".subr", ".subr", ".sh~", ".sh.bak", ".tar.sh", ".txt", "", ".SH",
	".Pl", ".shx", ".pl.sh", ".sh.pl", ".subr~", ".bak", ".sh#", ".sh ", ".s", ".txt",
}
var specialNames = []string{"#a.sh#", "sh", "pl", "README", "Makefile", "a.sh.swp", "broken.txt", "4913", "a.sh,v"}
var dotNames = []string{".hidden.sh", ".a.pl", ".sh", ".pl", ".subr", "..sh", ".#a.sh", ".a.sh.swp", ".x.subr", ".b.sh~", ".profile", "... .sh"}
var dirNames = []string{"sub", "dir.sh", "lib.pl", "old", "x.subr", "a", "B", "t d", "[d]"}

func pick(rng *rand.Rand, l []string) string { return l[rng.IntN(len(l))] }

func genName(rng *rand.Rand) string {
	if rng.IntN(12) == 0 {
		return pick(rng, specialNames)
	}
	return pick(rng, stems) + pick(rng, exts)
}

type gen struct {
	rng    *rand.Rand
	tb     *table
	base   string // <work>/tNNN
	dname  string // name of the generated directory below base ("" = "d")
	nextID int
	extN   int
}

func (g *gen) marker() string {
	g.nextID++
	return fmt.Sprintf("@@%03d@@", g.nextID)
}

// content makes a file body.  special allows the bodies that carry no marker
// (empty, newlines only).
func (g *gen) content(name string, special bool) (b []byte, class string, marked bool) {
	rng := g.rng
	if special {
		switch rng.IntN(11) {
		case 0:
			return nil, "empty", false
		case 1:
			return []byte("\n"), "newline-only", false
		case 2:
			return []byte("\n\n\n"), "newline-only", false
		}
	}
	m := g.marker()
	if strings.HasSuffix(strings.ToLower(name), ".pl") {
		switch rng.IntN(4) {
		case 0:
			return []byte("#!/usr/bin/env perl\n#\n# TABDOC: p" + m + " perl thing\n# more\n\nuse strict;\nprint \"" + m + "\\n\";\n"), "perl-commented", true
		case 1:
			return []byte("print '" + m + "'"), "perl-no-trailing-newline", true
		default:
			return []byte("print \"" + m + "\\n\";\nexit 0;\n"), "perl", true
		}
	}
	body := "f" + m[2:5] + "() { echo '" + m + "'; }"
	switch rng.IntN(14) {
	case 0, 1, 2:
		return []byte(body), "no-trailing-newline", true
	case 3:
		return []byte("# TABDOC: f" + m[2:5] + " does " + m + "\n" + body + "\n"), "tabdoc", true
	case 4:
		return []byte("# " + m + "\r\n" + body + "\r\n"), "crlf", true
	case 5:
		b := []byte("# " + m + " \xff\xfe\x00\x80\xc3\x28 ")
		for k := rng.IntN(40); k > 0; k-- {
			b = append(b, byte(rng.Uint32()))
		}
		if rng.IntN(2) == 0 {
			b = append(b, '\n')
			return b, "non-utf8", true
		}
		if b[len(b)-1] == '\n' {
			b = append(b, 0xff)
		}
		return b, "non-utf8-no-trailing-newline", true
	case 6:
		if rng.IntN(5) == 0 {
			big := bytes.Repeat([]byte("# "+m+" padding padding padding padding padding\n"), 1500)
			return big, "big", true
		}
		return []byte(body + "\n\n\n"), "extra-trailing-newlines", true
	case 7:
		return []byte("\n\n" + body + "\n"), "leading-blank-lines", true
	case 8:
		// bytes at the very start or end that tools like to "tidy": byte-order marks,
		// blanks, form feeds, NULs, a final ^Z
		lead := []string{"\xef\xbb\xbf", "\xff\xfe", "\xfe\xff", " \t", "\x0c", "\x00", "\xef\xbb\xbf\xef\xbb\xbf", "\r\n"}[rng.IntN(8)]
		trail := []string{"\n", "", " \n", "\x1a", "\n\xef\xbb\xbf", "\t"}[rng.IntN(6)]
		return []byte(lead + "# " + m + "\n" + body + trail), "edge-bytes", true
	}
	return []byte(body + "\n"), "plain", true
}

func (g *gen) extFile(name string, special bool) (target string, content []byte, class string, marked bool) {
	g.extN++
	if special && g.rng.IntN(6) == 0 {
		// a regular file whose size as reported by stat (0) says nothing about its content
		for _, pf := range []string{"/proc/version", "/proc/sys/kernel/ostype"} {
			if b, err := os.ReadFile(pf); err == nil && len(b) > 0 {
				if fi, err := os.Stat(pf); err == nil && fi.Mode().IsRegular() && fi.Size() < int64(len(b)) {
					return pf, b, "stat-size-smaller-than-content", false
				}
			}
		}
	}
	fn := fmt.Sprintf("f%d-%s", g.extN, strings.Map(func(r rune) rune {
		if r == '/' || r == 0 {
			return '_'
		}
		return r
	}, name))
	content, class, marked = g.content(name, special)
	os.WriteFile(filepath.Join(g.base, "ext", fn), content, 0o644)
	if g.rng.IntN(2) == 0 {
		return filepath.Join(g.base, "ext", fn), content, class, marked
	}
	return "../ext/" + fn, content, class, marked
}

func (g *gen) children(depth int) []*entry {
	rng := g.rng
	var out []*entry
	used := map[string]bool{}
	for k := rng.IntN(4); k > 0; k-- {
		n := pick(rng, []string{"x", "y", "a", "B", "in ner"}) + pick(rng, []string{".sh", ".sh", ".pl", ".subr", ".txt"})
		if rng.IntN(5) == 0 {
			n = "." + n
		}
		if used[n] {
			continue
		}
		used[n] = true
		c, cl, mk := g.content(n, g.tb.Tagged)
		out = append(out, &entry{Name: n, Kind: kFile, Content: c, Class: cl, Marker: mk, Nested: true})
	}
	if depth == 0 && rng.IntN(4) == 0 {
		out = append(out, &entry{Name: "deep", Kind: kDir, Nested: true, Children: g.children(1)})
	}
	return out
}

func (g *gen) tree() *view {
	rng := g.rng
	dn := g.dname
	if dn == "" {
		dn = "d"
	}
	root := g.base + "/" + dn // not filepath.Join: the name may be anything, "--" or " x " included
	os.MkdirAll(root, 0o755)
	os.MkdirAll(filepath.Join(g.base, "ext"), 0o755)
	v := &view{dir: root}
	used := map[string]bool{}
	add := func(e *entry) bool {
		if e.Name == "" || e.Name == "." || e.Name == ".." || len(e.Name) > 200 || used[e.Name] {
			return false
		}
		used[e.Name] = true
		v.top = append(v.top, e)
		return true
	}
	specialOK := func(name string) bool {
		// Without tagging filters a part can only be attributed to its file
		// through the marker in its content, so parts that must NOT appear
		// always carry one.
		return g.tb.Tagged || (!strings.HasPrefix(name, ".") && g.tb.first(name) != nil)
	}
	file := func(name string) {
		c, cl, mk := g.content(name, specialOK(name))
		add(&entry{Name: name, Kind: kFile, Content: c, Class: cl, Marker: mk})
	}
	// two ordinary candidates so that order and concatenation always matter
	for k := 0; k < 2; k++ {
		file(pick(rng, stems) + pick(rng, []string{".sh", ".sh", ".pl", ".subr"}))
	}
	n := rng.IntN(12)
	for k := 0; k < n; k++ {
		name := genName(rng)
		x := rng.IntN(100)
		dotted := rng.IntN(100) < 18
		if dotted {
			if rng.IntN(2) == 0 {
				name = pick(rng, dotNames)
			} else {
				name = "." + name
			}
		}
		switch {
		case x < 54:
			file(name)
		case x < 62: // valid link to a regular file: followed, so it counts as that file
			var tgt, cl string
			var c []byte
			var mk bool
			if g.tb.Tagged && rng.IntN(4) == 0 && len(v.top) > 0 && v.top[0].Kind == kFile {
				sib := v.top[rng.IntN(len(v.top))]
				if sib.Kind != kFile {
					sib = v.top[0]
				}
				tgt, c, cl, mk = filepath.Join(root, sib.Name), sib.Content, sib.Class, sib.Marker
			} else {
				tgt, c, cl, mk = g.extFile(name, specialOK(name))
			}
			add(&entry{Name: name, Kind: kLinkFile, Target: tgt, Content: c, Class: cl, Marker: mk})
		case x < 67: // valid link to a directory: not a regular file
			g.extN++
			dn := fmt.Sprintf("dir%d", g.extN)
			os.MkdirAll(filepath.Join(g.base, "ext", dn), 0o755)
			c, cl, mk := g.content("inner.sh", false)
			os.WriteFile(filepath.Join(g.base, "ext", dn, "inner.sh"), c, 0o644)
			tgt := filepath.Join(g.base, "ext", dn)
			if rng.IntN(2) == 0 {
				tgt = "../ext/" + dn
			}
			if rng.IntN(2) == 0 {
				name = pick(rng, dirNames)
			}
			add(&entry{Name: name, Kind: kLinkDir, Target: tgt,
				Children: []*entry{{Name: "inner.sh", Kind: kFile, Content: c, Class: cl, Marker: mk, Nested: true}}})
		case x < 77: // dangling link, only among dot-files and non-matching names
			if !dotted {
				for try := 0; try < 6 && g.tb.first(name) != nil; try++ {
					name = pick(rng, stems) + pick(rng, []string{".txt", "", ".bak", ".sh~", ".lnk", ".sh.orig"})
				}
				if g.tb.first(name) != nil {
					name = "." + name
				}
			}
			odd := false
			tgt := pick(rng, []string{"nowhere", "/nonexistent/c17/target", "../ext/missing", "a.sh/not-a-dir", "loop-" + name})
			if rng.IntN(3) == 0 {
				// links whose resolution fails in another way than "no such file": through
				// a regular file (ENOTDIR), an over-long component (ENAMETOOLONG), itself (ELOOP)
				os.MkdirAll(filepath.Join(g.base, "ext"), 0o755)
				os.WriteFile(filepath.Join(g.base, "ext", "plain-file"), []byte("x\n"), 0o644)
				tgt = pick(rng, []string{"../ext/plain-file/lock", filepath.Join(g.base, "ext", "plain-file", "x", "y"), strings.Repeat("n", 300), "sub/" + strings.Repeat("L", 256) + ".sh", name, "./" + name})
				odd = true
			}
			add(&entry{Name: name, Kind: kDangling, Target: tgt, Odd: odd})
		case x < 85: // editor lock link next to a file being edited
			of := v.top[rng.IntN(len(v.top))].Name
			add(&entry{Name: ".#" + strings.TrimPrefix(of, "."), Kind: kDangling, Lock: true, Target: fmt.Sprintf("user@host.%d:%d", 1000+rng.IntN(9000), 1700000000+rng.IntN(1000))})
		case x < 88: // non-regular, non-directory entry under any name (FIFOs are avoided: opening one could block)
			if !dotted && rng.IntN(2) == 0 {
				name = pick(rng, stems) + pick(rng, []string{".sh", ".pl", ".subr"})
			}
			add(&entry{Name: name, Kind: kSocket})
		default: // sub-directory, possibly with a matching name of its own
			if rng.IntN(2) == 0 {
				name = pick(rng, dirNames)
				if dotted {
					name = "." + name
				}
			}
			add(&entry{Name: name, Kind: kDir, Children: g.children(0)})
		}
	}
	// self-referencing dangling links ("loop-x" -> itself is not created; the
	// target simply does not exist), materialise.
	kept := v.top[:0]
	for _, e := range v.top {
		if err := materialize(e, root); err != nil {
			if e.Kind == kSocket { // mknod not permitted here: go without
				continue
			}
			panic(fmt.Sprintf("materialize %q: %v", e.Name, err))
		}
		kept = append(kept, e)
	}
	v.top = kept
	return v
}

// ---- diagnosis ----------------------------------------------------------------

type finding struct {
	key   string
	what  string
	names []string
}

type findings struct{ l []*finding }

func (fs *findings) add(key, what, name string) {
	for _, f := range fs.l {
		if f.key == key {
			if name != "" && len(f.names) < 8 {
				f.names = append(f.names, name)
			}
			return
		}
	}
	f := &finding{key: key, what: what}
	if name != "" {
		f.names = []string{name}
	}
	fs.l = append(fs.l, f)
}

type obsItem struct {
	e         *entry
	name, pat string
	nlOK      bool
	contentOK bool
	pos       int
}

type rec struct {
	pat, name, content string
	nls, pos           int
}

// parseRecords splits the output of tagging filters into its parts.
func parseRecords(b []byte) (recs []rec, bad int) {
	s := string(b)
	i := 0
	for i < len(s) {
		start := i
		if s[i] != '<' {
			return recs, start
		}
		i++
		var f [3]string
		for k := 0; k < 3; k++ {
			q, err := strconv.QuotedPrefix(s[i:])
			if err != nil {
				return recs, start
			}
			u, err := strconv.Unquote(q)
			if err != nil {
				return recs, start
			}
			f[k] = u
			i += len(q)
			want := byte('|')
			if k == 2 {
				want = '>'
			}
			if i >= len(s) || s[i] != want {
				return recs, start
			}
			i++
		}
		n := 0
		for i < len(s) && s[i] == '\n' {
			n++
			i++
		}
		recs = append(recs, rec{f[0], f[1], f[2], n, start})
	}
	return recs, -1
}

func stripNL(b []byte) []byte { return bytes.ReplaceAll(b, []byte("\n"), nil) }

// judgeDir explains why got differs from the reference payload of v.
func judgeDir(t *table, v *view, got, want []byte) []*finding {
	fs := &findings{}
	// what is expected, per entry
	type expItem struct {
		e   *entry
		pat string
		T   []byte
	}
	var exp []expItem
	{
		var el []*entry
		for _, e := range v.top {
			if !e.dot() && e.regular() && t.first(e.Name) != nil {
				el = append(el, e)
			}
		}
		sort.Slice(el, func(i, j int) bool { return el[i].Name < el[j].Name })
		for _, e := range el {
			f := t.first(e.Name)
			exp = append(exp, expItem{e, f.Pattern, nlTerm(apply(f, e.Name, e.Content))})
		}
	}
	expIdx := map[*entry]int{}
	var unterminated []byte
	for i, x := range exp {
		expIdx[x.e] = i
		unterminated = append(unterminated, apply(t.first(x.e.Name), x.e.Name, x.e.Content)...)
	}
	if bytes.Equal(got, unterminated) {
		fs.add("newline", "parts that do not end in a newline are concatenated without one being added", "")
		return fs.l
	}
	nested := v.nested()

	var obs []obsItem
	if t.Tagged {
		recs, bad := parseRecords(got)
		if bad >= 0 {
			fs.add("payload-mismatch", fmt.Sprintf("payload of tagging filters cannot be split into parts at offset %d", bad), "")
		}
		byName := map[string]*entry{}
		for _, e := range v.top {
			byName[e.Name] = e
		}
		for _, rc := range recs {
			o := obsItem{name: rc.name, pat: rc.pat, pos: rc.pos, contentOK: true}
			if e := byName[rc.name]; e != nil && e.regular() && string(e.Content) == rc.content {
				o.e = e
			} else {
				for _, ne := range nested {
					if ne.regular() && ne.Name == rc.name && string(ne.Content) == rc.content {
						o.e = ne
						break
					}
				}
				if o.e == nil && e != nil {
					o.e, o.contentOK = e, false
				}
			}
			if f := t.byPattern(rc.pat); f != nil {
				wantN := 1
				if f.Variant == "tag-nl2" {
					wantN = 2
				}
				o.nlOK = rc.nls == wantN
			} else {
				o.nlOK = rc.nls >= 1
			}
			obs = append(obs, o)
		}
	} else {
		// attribute by the unique marker carried by the contents
		cands := append([]*entry{}, v.top...)
		cands = append(cands, nested...)
		for _, e := range cands {
			if !e.regular() || !e.Marker {
				continue
			}
			U := e.Content
			pat := ""
			if f := t.first(e.Name); f != nil {
				U, pat = apply(f, e.Name, e.Content), f.Pattern
			}
			if len(U) == 0 {
				continue
			}
			for off := 0; ; {
				i := bytes.Index(got[off:], U)
				if i < 0 {
					break
				}
				p := off + i
				end := p + len(U)
				ok := U[len(U)-1] == '\n' || (end < len(got) && got[end] == '\n')
				obs = append(obs, obsItem{e: e, name: e.Name, pat: pat, pos: p, nlOK: ok, contentOK: true})
				off = end
			}
		}
		sort.Slice(obs, func(i, j int) bool { return obs[i].pos < obs[j].pos })
	}

	seen := map[*entry]int{}
	last := -1
	misordered := false
	for _, o := range obs {
		if o.e == nil {
			fs.add("unknown-part", "a part in the payload belongs to no file of the tree", o.name)
			continue
		}
		seen[o.e]++
		if seen[o.e] == 2 {
			fs.add("duplicate-part", "a file contributes more than once to the payload", o.name)
		}
		i, ok := expIdx[o.e]
		if !ok {
			switch {
			case o.e.Nested:
				fs.add("subdir-contributes", "a file below a sub-directory contributes to the payload", o.name)
			case o.e.dot():
				fs.add("dotfile-included", "a file whose name starts with '.' contributes to the directory payload", o.name)
			case t.first(o.e.Name) == nil:
				fs.add("nonmatching-included", "a file matching no filter pattern contributes to the payload", o.name)
			default:
				fs.add("extra-part", "an ineligible entry contributes to the payload", o.name)
			}
			continue
		}
		if seen[o.e] == 1 {
			if i < last {
				misordered = true
			}
			last = i
		}
		x := exp[i]
		switch {
		case t.Tagged && o.pat != x.pat:
			fs.add("wrong-filter", fmt.Sprintf("a file was converted by %q instead of the first matching pattern %q", o.pat, x.pat), o.name)
		case len(x.T) == 0:
			fs.add("content", "a file whose filter produces nothing contributes a part", o.name)
		case !o.contentOK:
			fs.add("content", "a part does not carry the file's content", o.name)
		}
		if !o.nlOK {
			fs.add("newline", "a part is not newline-terminated as required", o.name)
		}
	}
	for _, x := range exp {
		if len(x.T) == 0 || seen[x.e] > 0 || (!t.Tagged && !x.e.Marker) {
			continue
		}
		if x.e.Kind == kLinkFile {
			fs.add("symlink-to-file-missing", "a valid symlink to a regular file with a matching name contributes nothing", x.e.Name)
		} else {
			fs.add("eligible-file-missing", "an eligible regular file contributes nothing", x.e.Name)
		}
	}
	if misordered {
		fs.add("order", "parts are not in bytewise file-name order", "")
	}
	if len(fs.l) == 0 { // parts that cannot be attributed (empty lines only): the right parts in another order?
		var parts [][]byte
		for _, x := range exp {
			if len(x.T) > 0 {
				parts = append(parts, x.T)
			}
		}
		if isPermutation(got, parts) {
			fs.add("order", "the payload consists of the right parts in another order than bytewise file-name order", "")
		}
	}
	if len(fs.l) == 0 && bytes.Equal(stripNL(got), stripNL(want)) {
		fs.add("newline", "payload equals the reference except for newlines between parts", "")
	}
	if len(fs.l) == 0 {
		fs.add("payload-mismatch", "payload differs from the reference (no part-level explanation found)", "")
	}
	return fs.l
}

// isPermutation reports whether got is the concatenation of all parts in some
// order (dynamic programme over subsets; the offset is fixed by the subset).
func isPermutation(got []byte, parts [][]byte) bool {
	n := len(parts)
	total := 0
	for _, p := range parts {
		total += len(p)
	}
	if n == 0 || n > 16 || total != len(got) {
		return false
	}
	reach := make([]bool, 1<<n)
	reach[0] = true
	for m := 1; m < 1<<n; m++ {
		end := 0
		for i := 0; i < n; i++ {
			if m&(1<<i) != 0 {
				end += len(parts[i])
			}
		}
		for i := 0; i < n && !reach[m]; i++ {
			if m&(1<<i) != 0 && reach[m&^(1<<i)] && bytes.Equal(got[end-len(parts[i]):end], parts[i]) {
				reach[m] = true
			}
		}
	}
	return reach[1<<n-1]
}

// culprits finds the entries that make the conversion fail on their own: each
// top-level entry is re-created alone in a fresh directory and converted.
func culprits(conv *shellfuncsfile.Converter, v *view, base string, ctr *int) (out []*entry) {
	for _, e := range v.top {
		*ctr++
		d := filepath.Join(base, fmt.Sprintf("probe%d", *ctr))
		if err := os.Mkdir(d, 0o755); err != nil {
			continue
		}
		if err := materialize(e, d); err == nil {
			if _, err := conv.From(d); err != nil {
				out = append(out, e)
			}
		}
		os.RemoveAll(d)
	}
	return
}

func culpritKey(t *table, e *entry) (string, string) {
	dangling := e.Kind == kDangling
	switch {
	case e.dot() && dangling:
		return "dotfile-dangling-link-fails-conversion", "a dot-file that is a dangling symlink (e.g. an editor lock link) makes the whole directory conversion fail"
	case e.dot():
		return "dotfile-fails-conversion", "a dot-file makes the whole directory conversion fail"
	case e.Kind == kDir || e.Kind == kLinkDir:
		return "subdir-fails-conversion", "a sub-directory makes the whole directory conversion fail"
	case e.Kind == kSocket:
		return "nonregular-fails-conversion", "a non-regular file (socket) makes the whole directory conversion fail"
	case t.first(e.Name) == nil && dangling:
		return "nonmatching-dangling-link-fails-conversion", "a dangling symlink whose name matches no pattern makes the whole directory conversion fail"
	case t.first(e.Name) == nil:
		return "nonmatching-fails-conversion", "a file matching no pattern makes the whole directory conversion fail"
	}
	return "eligible-file-fails-conversion", "an eligible regular file makes the conversion fail"
}

func head(b []byte) string {
	if len(b) > 300 {
		return fmt.Sprintf("%q…(%d bytes)", b[:300], len(b))
	}
	return fmt.Sprintf("%q", b)
}

// ---- real binaries -----------------------------------------------------------------

type binaries struct {
	once      sync.Once
	crs, tool string
	err       string
	home      string
}

func (b *binaries) build(r *mon.Run) {
	b.once.Do(func() {
		b.crs, b.tool = filepath.Join(r.Work, "crs"), filepath.Join(r.Work, "sff")
		b.home = filepath.Join(r.Work, "home")
		os.MkdirAll(b.home, 0o755)
		env := append(os.Environ(), "GOFLAGS=-mod=mod", "GOPROXY=off", "GOSUMDB=off", "GOTOOLCHAIN=local")
		for _, x := range [][2]string{
			{b.crs, "github.com/magisterquis/curlrevshell"},
			{b.tool, "github.com/magisterquis/curlrevshell/lib/shellfuncsfile/cmd/shellfuncsfile"},
		} {
			res := mon.Proc{Path: "go", Args: []string{"build", "-race", "-tags", "verif", "-o", x[0], x[1]},
				Env: env, Dir: filepath.Join(mon.VerifDir, "harness"), Timeout: 15 * time.Minute}.Run()
			if res.Status != 0 {
				b.err = fmt.Sprintf("building %s: status %d: %s", x[1], res.Status, tailStr(res.Stderr))
				return
			}
		}
	})
}

func tailStr(b []byte) string {
	if len(b) > 600 {
		b = b[len(b)-600:]
	}
	return string(b)
}

func (b *binaries) run(path string, args ...string) mon.ProcResult {
	env := []string{"PATH=" + os.Getenv("PATH"), "HOME=" + b.home, "XDG_CACHE_HOME=" + filepath.Join(b.home, ".cache"), "LC_ALL=C"}
	if g := os.Getenv("GORACE"); g != "" {
		env = append(env, "GORACE="+g)
	}
	res := mon.Proc{Path: path, Args: args, Env: env, Dir: b.home, Stdin: []byte{}, Timeout: 60 * time.Second}.Run()
	if res.TimedOut { // once more, alone-ish and with the bound doubled (§2.6)
		res = mon.Proc{Path: path, Args: args, Env: env, Dir: b.home, Stdin: []byte{}, Timeout: 120 * time.Second}.Run()
	}
	return res
}

// ---- one tree ------------------------------------------------------------------------

type treeCheck struct {
	r     *mon.Run
	i     int
	tb    *table
	v     *view
	base  string
	conv  *shellfuncsfile.Converter
	probe int
	cnt   map[string]int64
	orig  []string // listing before any culprit was removed

	engine  string   // "" = "tree"
	cprefix string   // prefix of this engine's counter names
	hist    []string // what was done to the converter / to the files so far (history and metadata engines)
	src     string   // history engine: the source being converted (for the fresh-converter comparison)
}

func (tc *treeCheck) eng() string {
	if tc.engine == "" {
		return "tree"
	}
	return tc.engine
}

func (tc *treeCheck) violate(key, what string, extra map[string]any) {
	w := map[string]any{"tree": tc.v.listing(), "table": tc.tb}
	if len(tc.orig) != len(tc.v.top) {
		w["tree_as_generated"] = tc.orig
	}
	for k, v := range extra {
		w[k] = v
	}
	if len(tc.hist) > 0 {
		w["history"] = append([]string{}, tc.hist...)
	}
	if tc.engine == "history" {
		// Does a converter that was never used, built with the table as it is
		// now, give the reference?  Then the defect lies in what the used
		// converter remembers, and the key says so.
		if ok, res := tc.freshAgrees(); ok {
			key = "used-converter:" + key
			what = "a converter used before its filter table was changed: " + what + " (a fresh converter with the same table gives the reference payload)"
		} else {
			w["fresh_converter_same_table"] = res
		}
	}
	tc.r.Violate(tc.eng(), tc.i, key, strings.ReplaceAll(what, "\n", `\n`), w)
}

func (tc *treeCheck) count(name string, n int64) { tc.cnt[tc.cprefix+name] += n }

// judgeFail handles a failed conversion of directory v observed at `where`:
// every generated tree is free of legitimate causes of failure, so the failure
// is a violation; the entries that cause it on their own name its class.
func (tc *treeCheck) judgeFail(where string, v *view, errText string) []*entry {
	cs := culprits(tc.conv, v, tc.base, &tc.probe)
	if len(cs) == 0 {
		tc.violate("unexpected-error", where+": conversion of a directory without any legitimate cause of failure fails: "+errText, map[string]any{"error": errText, "dir": v.dir})
		return nil
	}
	seen := map[string]bool{}
	for _, e := range cs {
		key, what := culpritKey(tc.tb, e)
		if seen[key] {
			continue
		}
		seen[key] = true
		tc.violate(key, fmt.Sprintf("%s: %s: %s", where, what, errText),
			map[string]any{"error": errText, "minimal_tree": []string{e.describe()}, "dir": v.dir})
	}
	return cs
}

// judge compares one directory payload observed at `where` with the reference.
func (tc *treeCheck) judge(where string, v *view, got []byte) {
	want, _, err := refDir(tc.tb, v.dir)
	if err != nil {
		tc.r.Inconclusive("reference could not read the generated tree: " + err.Error())
		return
	}
	tc.count("payload_comparisons", 1)
	if bytes.Equal(got, want) {
		return
	}
	for _, f := range judgeDir(tc.tb, v, got, want) {
		what := where + ": " + f.what
		if len(f.names) > 0 {
			what += fmt.Sprintf(" (%q)", f.names)
		}
		tc.violate(f.key, what, map[string]any{"names": f.names, "got": head(got), "want": head(want), "dir": v.dir})
	}
}

// checkDir runs the directory oracle on v in-process; entries that make the
// conversion fail are reported, then removed, so that one defect does not
// hide the rest of the tree from the other oracles.
func (tc *treeCheck) checkDir(v *view) {
	for attempt := 0; attempt < 3; attempt++ {
		got, err := tc.conv.From(v.dir)
		tc.count("from_calls", 1)
		if err == nil {
			tc.judge("Converter.From(dir)", v, got)
			return
		}
		tc.count("from_dir_errors", 1)
		cs := tc.judgeFail("Converter.From(dir)", v, err.Error())
		if len(cs) == 0 {
			return
		}
		for _, c := range cs {
			os.RemoveAll(filepath.Join(v.dir, c.Name))
			for k, e := range v.top {
				if e == c {
					v.top = append(v.top[:k:k], v.top[k+1:]...)
					break
				}
			}
		}
		tc.count("culprit_entries_removed", int64(len(cs)))
	}
}

func resultString(b []byte, err error) string {
	if err != nil {
		return "error: " + err.Error()
	}
	return "ok:" + string(b)
}

func (tc *treeCheck) determinism(v *view) {
	first := resultString(tc.conv.From(v.dir))
	for k := 0; k < 2; k++ {
		if s := resultString(tc.conv.From(v.dir)); s != first {
			tc.violate("nondeterministic-sequential", "repeated conversions of an unchanged directory differ", map[string]any{"first": head([]byte(first)), "later": head([]byte(s))})
			break
		}
	}
	tc.count("from_calls", 3)
	tc.count("sequential_repeat_calls", 3)
	const nc = 4
	res := make([]string, nc)
	var wg sync.WaitGroup
	start := make(chan struct{})
	for k := 0; k < nc; k++ {
		wg.Add(1)
		go func(k int) {
			defer wg.Done()
			<-start
			res[k] = resultString(tc.conv.From(v.dir))
		}(k)
	}
	// SetFilter on a different pattern (one that matches no generated name)
	// is allowed while From runs.
	if tc.tb.Base == "default" {
		wg.Add(1)
		go func() {
			defer wg.Done()
			<-start
			for k := 0; k < 3; k++ {
				tc.conv.SetFilter("zz-c17-unused-*.nomatch", func(string, io.Reader) ([]byte, error) { return []byte("UNUSED"), nil })
				runtime.Gosched()
				tc.conv.SetFilter("zz-c17-unused-*.nomatch", nil)
			}
		}()
		tc.count("setfilter_calls_concurrent_with_from", 6)
	}
	close(start)
	wg.Wait()
	tc.count("from_calls", nc)
	tc.count("concurrent_calls", nc)
	for k := 0; k < nc; k++ {
		if res[k] != first {
			tc.violate("nondeterministic-concurrent", "concurrent conversions of an unchanged directory differ from the sequential result", map[string]any{"sequential": head([]byte(first)), "concurrent": head([]byte(res[k]))})
			break
		}
	}
}

type fileRef struct {
	path string
	e    *entry
}

func collectFiles(dir string, es []*entry, out *[]fileRef) {
	for _, e := range es {
		switch e.Kind {
		case kFile, kLinkFile:
			*out = append(*out, fileRef{filepath.Join(dir, e.Name), e})
		case kDir:
			collectFiles(filepath.Join(dir, e.Name), e.Children, out)
		}
	}
}

// singleFile checks From(path) for one explicitly named file.  It returns the
// payload if the call succeeded.
func (tc *treeCheck) singleFile(fr fileRef) ([]byte, bool) {
	got, err := tc.conv.From(fr.path)
	tc.count("from_calls", 1)
	tc.count("singlefile_calls", 1)
	want, rerr := refFile(tc.tb, fr.path)
	if rerr != nil {
		tc.r.Inconclusive("reference could not read a generated file: " + rerr.Error())
		return nil, false
	}
	f := tc.tb.first(fr.e.Name)
	if f == nil {
		tc.count("singlefile_unmatched_calls", 1)
	} else {
		tc.count("singlefile_matched_calls", 1)
	}
	if fr.e.dot() {
		tc.count("singlefile_dotfile_calls", 1)
	}
	w := map[string]any{"file": fr.e.describe(), "path": fr.path, "got": head(got), "want": head(want)}
	if err != nil {
		w["error"] = err.Error()
		if f == nil {
			tc.violate("singlefile-unmatched-returns-error", fmt.Sprintf("From(single file %q) with no matching filter returns an error instead of the content unchanged: %v", fr.e.Name, err), w)
		} else {
			tc.violate("singlefile-error", fmt.Sprintf("From(single file %q) fails: %v", fr.e.Name, err), w)
		}
		return nil, false
	}
	if bytes.Equal(got, want) {
		return got, true
	}
	key, what := "singlefile-mismatch", "is not the converted content"
	switch {
	case f == nil && len(got) == 0:
		key, what = "singlefile-unmatched-empty", "with no matching filter is empty instead of the content unchanged"
	case f == nil:
		key, what = "singlefile-unmatched-not-raw", "with no matching filter is not the content unchanged"
	case bytes.Equal(stripNL(got), stripNL(want)):
		key, what = "singlefile-newline", "is not newline-terminated as required"
	case bytes.Equal(got, fr.e.Content) && !bytes.Equal(fr.e.Content, want):
		key, what = "singlefile-not-converted", "has a matching filter but comes back unconverted"
	default:
		for i := range tc.tb.Filters {
			o := &tc.tb.Filters[i]
			if ok, _ := filepath.Match(o.Pattern, fr.e.Name); ok && o != f && bytes.Equal(got, nlTerm(apply(o, fr.path, fr.e.Content))) {
				key, what = "singlefile-wrong-filter", fmt.Sprintf("was converted by %q instead of the first matching pattern %q", o.Pattern, f.Pattern)
			}
		}
	}
	tc.violate(key, fmt.Sprintf("From(single file %q) %s", fr.e.Name, what), w)
	return got, true
}

func (tc *treeCheck) singleFiles(rng *rand.Rand) (ok []fileRef) {
	var all []fileRef
	collectFiles(tc.v.dir, tc.v.top, &all)
	if len(all) == 0 {
		return
	}
	// one of each class if present, then random ones
	chosen := map[int]bool{}
	want := []func(fileRef) bool{
		func(f fileRef) bool { return !f.e.dot() && tc.tb.first(f.e.Name) != nil },
		func(f fileRef) bool { return tc.tb.first(f.e.Name) == nil },
		func(f fileRef) bool { return f.e.dot() },
		func(f fileRef) bool { return f.e.Kind == kLinkFile || f.e.Nested },
	}
	off := rng.IntN(len(all))
	for _, w := range want {
		for k := range all {
			j := (k + off) % len(all)
			if !chosen[j] && w(all[j]) {
				chosen[j] = true
				break
			}
		}
	}
	chosen[rng.IntN(len(all))] = true
	for j := range all {
		if chosen[j] {
			if _, good := tc.singleFile(all[j]); good {
				ok = append(ok, all[j])
			}
		}
	}
	return
}

// multiSource: From(s1, s2, ...) is the concatenation, in the order given, of
// the payloads of the sources (each of which is judged on its own by the other
// oracles).
func (tc *treeCheck) multiSource(rng *rand.Rand, files []fileRef) {
	srcs := []string{}
	pool := []string{tc.v.dir}
	for _, f := range files {
		pool = append(pool, f.path)
	}
	for _, e := range tc.v.top {
		if e.Kind == kDir {
			pool = append(pool, filepath.Join(tc.v.dir, e.Name))
		}
	}
	n := 2 + rng.IntN(3)
	// file + dir + file when possible
	if len(files) > 0 {
		srcs = append(srcs, files[rng.IntN(len(files))].path, tc.v.dir)
	}
	for len(srcs) < n {
		srcs = append(srcs, pool[rng.IntN(len(pool))])
	}
	parts := make([][]byte, len(srcs))
	for k, s := range srcs {
		b, err := tc.conv.From(s)
		tc.count("from_calls", 1)
		if err != nil {
			tc.count("multisource_skipped_source_fails_alone", 1)
			return
		}
		parts[k] = b
		// the parts themselves against the reference (sub-directories given
		// explicitly are directories like any other)
		if want, err := refSource(tc.tb, s); err == nil && !bytes.Equal(b, want) && s != tc.v.dir {
			if fi, _ := os.Stat(s); fi != nil && fi.IsDir() {
				for _, e := range tc.v.top {
					if e.Kind == kDir && filepath.Join(tc.v.dir, e.Name) == s {
						sv := &view{dir: s}
						for _, c := range e.Children {
							cc := *c
							cc.Nested = false
							sv.top = append(sv.top, &cc)
						}
						tc.judge("Converter.From(sub-directory given as source)", sv, b)
					}
				}
			}
		}
	}
	got, err := tc.conv.From(srcs...)
	tc.count("from_calls", 1)
	tc.count("multisource_calls", 1)
	tc.count("multisource_sources", int64(len(srcs)))
	want := bytes.Join(parts, nil)
	w := map[string]any{"sources": srcs, "got": head(got), "want": head(want)}
	if err != nil {
		w["error"] = err.Error()
		tc.violate("multisource-error", "From(several sources) fails although each source converts on its own: "+err.Error(), w)
		return
	}
	if bytes.Equal(got, want) {
		return
	}
	key, what := "multisource-mismatch", "From(several sources) is not the concatenation of the sources' payloads"
	perm := make([]int, len(srcs))
	for k := range perm {
		perm[k] = k
	}
	var try func(k int) bool
	try = func(k int) bool {
		if k == len(perm) {
			var b []byte
			for _, p := range perm {
				b = append(b, parts[p]...)
			}
			return bytes.Equal(b, got)
		}
		for j := k; j < len(perm); j++ {
			perm[k], perm[j] = perm[j], perm[k]
			if try(k + 1) {
				return true
			}
			perm[k], perm[j] = perm[j], perm[k]
		}
		return false
	}
	if try(0) {
		key, what = "multisource-order", "From(several sources) concatenates the sources in another order than given"
	}
	tc.violate(key, what, w)
}

var listHead = []byte("\n" + shellfuncsfile.ListFuncName + "() {\n")

// splitList separates the payload from the appended list function (which is
// C18's business) and checks that the list function is the one generated from
// exactly that payload.
func splitList(out []byte) (body []byte, ok bool) {
	i := bytes.LastIndex(out, listHead)
	if i < 0 {
		return nil, false
	}
	body = out[:i]
	lf, err := shellfuncsfile.GenFuncList(string(body))
	if err != nil || !bytes.Equal(out[i+1:], lf) {
		return body, false
	}
	return body, true
}

func (tc *treeCheck) binariesCheck(b *binaries, rng *rand.Rand) {
	type runSpec struct {
		where string
		path  string
		args  []string
		list  bool
	}
	dir := tc.v.dir
	specs := []runSpec{
		{"curlrevshell -print-ctrl-i -ctrl-i <dir>", b.crs, []string{"-print-ctrl-i", "-ctrl-i", dir}, true},
		{"shellfuncsfile -no-list-function <dir>", b.tool, []string{"-no-list-function", dir}, false},
		{"shellfuncsfile <dir>", b.tool, []string{dir}, true},
	}
	for _, s := range specs {
		res := b.run(s.path, s.args...)
		tc.count("binary_runs", 1)
		if res.TimedOut {
			tc.r.Inconclusive(s.where + ": watchdog fired twice")
			continue
		}
		if res.Status != 0 {
			tc.judgeFail(s.where, tc.v, fmt.Sprintf("exit status %d signal %q stderr %q", res.Status, res.Signal, tailStr(res.Stderr)))
			continue
		}
		body := res.Stdout
		if s.list {
			var ok bool
			if body, ok = splitList(res.Stdout); !ok {
				tc.violate("binary-listfunc-mismatch", s.where+": output does not end in the list function generated from the payload before it", map[string]any{"stdout": head(res.Stdout)})
				if body == nil {
					continue
				}
			}
		}
		tc.judge(s.where, tc.v, body)
	}
	// a single file through the real binary
	var all []fileRef
	collectFiles(dir, tc.v.top, &all)
	if len(all) > 0 {
		fr := all[rng.IntN(len(all))]
		res := b.run(b.tool, "-no-list-function", fr.path, dir)
		tc.count("binary_runs", 1)
		want1, _ := refFile(tc.tb, fr.path)
		wantDir, _, _ := refDir(tc.tb, dir)
		switch {
		case res.TimedOut:
			tc.r.Inconclusive("shellfuncsfile <file> <dir>: watchdog fired twice")
		case res.Status != 0:
			// the directory's own failures are keyed by the runs above
			if _, err := tc.conv.From(fr.path); err != nil && tc.tb.first(fr.e.Name) == nil {
				tc.violate("singlefile-unmatched-returns-error", fmt.Sprintf("shellfuncsfile <file> <dir>: single file %q with no matching filter makes the tool fail: %s", fr.e.Name, tailStr(res.Stderr)), map[string]any{"file": fr.e.describe()})
			} else if _, err := tc.conv.From(dir); err == nil {
				tc.violate("binary-exit-nonzero", "shellfuncsfile <file> <dir> fails: "+tailStr(res.Stderr), map[string]any{"file": fr.e.describe()})
			}
		case bytes.Equal(res.Stdout, append(append([]byte{}, wantDir...), want1...)) && !bytes.Equal(res.Stdout, append(append([]byte{}, want1...), wantDir...)):
			tc.violate("multisource-order", "shellfuncsfile <file> <dir>: sources are concatenated in another order than given", map[string]any{"file": fr.e.describe(), "got": head(res.Stdout)})
		case !bytes.HasPrefix(res.Stdout, want1):
			tc.violate("singlefile-mismatch", fmt.Sprintf("shellfuncsfile <file> <dir>: output does not start with the payload of the single file %q", fr.e.Name), map[string]any{"file": fr.e.describe(), "got": head(res.Stdout), "want_prefix": head(want1)})
		default:
			tc.judge("shellfuncsfile <file> <dir> (directory part)", tc.v, res.Stdout[len(want1):])
		}
	}
}

func checkTree(r *mon.Run, i int, bins *binaries, inBinarySample bool) {
	rng := r.Rng("tree", i)
	tb := genTable(rng)
	base := filepath.Join(r.Work, fmt.Sprintf("t%06d", i))
	if err := os.MkdirAll(base, 0o755); err != nil {
		r.Inconclusive("mkdir: " + err.Error())
		return
	}
	defer os.RemoveAll(base)
	g := &gen{rng: rng, tb: tb, base: base}
	v := g.tree()
	tc := &treeCheck{r: r, i: i, tb: tb, v: v, base: base, conv: install(tb), cnt: map[string]int64{}, orig: v.listing()}
	defer func() {
		for k, n := range tc.cnt {
			r.Count(k, n)
		}
	}()
	r.Eval(1)
	r.Distinct(tb.sig() + "\n" + v.sig())
	tc.count("trees", 1)
	tc.count("tables:"+tb.Kind, 1)
	tc.census()

	if !modelAgrees(r, "tree", i, tb, v) {
		return
	}
	prng := r.Rng("pick", i)
	if inBinarySample {
		bins.build(r)
		if bins.err != "" {
			r.Inconclusive(bins.err)
		} else {
			tc.binariesCheck(bins, prng)
		}
	}
	tc.checkDir(v)
	tc.determinism(v)
	files := tc.singleFiles(prng)
	tc.multiSource(prng, files)
	tc.carryOver(prng)

	if i < 40 {
		if want, names, err := refDir(tb, v.dir); err == nil && len(names) >= 2 && len(tc.orig) >= 7 && len(want) < 1500 {
			r.Sample("tree", map[string]any{"index": i, "table": tb, "entries": tc.orig, "eligible_in_order": names, "expected_payload": head(want)})
		}
	}
}

// carryOver: "the result is the same on every call while the files are
// unchanged" and it is always the conversion of the files as they are now -
// whatever the same process converted before: (1) a build of another directory
// that FAILED half-way (a dangling link with an eligible name sorting last) must
// leave nothing behind for the next build; (2) after an edit that keeps a
// file's size and modification time (cp -p, rsync -t, a deploy tool restoring
// timestamps) the payload must be built from the new content.
func (tc *treeCheck) carryOver(rng *rand.Rand) {
	v := tc.v
	want, names, err := refDir(tc.tb, v.dir)
	if err != nil || len(names) == 0 {
		return
	}
	// (1) poison directory: copies of two eligible files plus a dangling eligible link
	poison := filepath.Join(tc.base, "poison-dir")
	if os.MkdirAll(poison, 0o755) == nil {
		for k, n := range names {
			if k >= 2 {
				break
			}
			if b, err := os.ReadFile(filepath.Join(v.dir, n)); err == nil {
				os.WriteFile(filepath.Join(poison, n), b, 0o644)
			}
		}
		os.Symlink("no-such-target-"+fmt.Sprint(tc.i), filepath.Join(poison, "~~~~"+names[len(names)-1]))
		_, perr := tc.conv.From(poison) // may fail or not: not judged (the statement does not cover this directory)
		if perr != nil {
			tc.count("failed_builds_before_a_rebuild", 1)
		}
		for _, c := range []*shellfuncsfile.Converter{tc.conv, install(tc.tb)} {
			got, err := c.From(v.dir)
			tc.count("from_calls", 1)
			tc.count("rebuilds_after_other_directory", 1)
			if err != nil || !bytes.Equal(got, want) {
				tc.violate("state-carried-over-from-earlier-build", fmt.Sprintf("after the same process had converted another directory (result: %v), converting the unchanged directory gives a different payload (%v)", perr, err), map[string]any{"expected": head(want), "got": head(got)})
				return
			}
		}
	}
	// (2) same-size, same-mtime edit of one eligible plain file
	for _, e := range v.top {
		if e.Kind != kFile || e.dot() || tc.tb.first(e.Name) == nil {
			continue
		}
		p := filepath.Join(v.dir, e.Name)
		fi, err := os.Stat(p)
		b, err2 := os.ReadFile(p)
		if err != nil || err2 != nil || len(b) < 3 {
			continue
		}
		k := 1 + rng.IntN(len(b)-2)
		if b[k] == '\n' || b[k] == '\'' || b[k] == '"' || b[k] == '\\' || b[k] == '#' {
			continue
		}
		nb := bytes.Clone(b)
		if nb[k] == 'Z' {
			nb[k] = 'Y'
		} else {
			nb[k] = 'Z'
		}
		if os.WriteFile(p, nb, fi.Mode().Perm()) != nil || os.Chtimes(p, fi.ModTime(), fi.ModTime()) != nil {
			continue
		}
		want2, _, err := refDir(tc.tb, v.dir)
		if err != nil {
			break
		}
		got, err := tc.conv.From(v.dir)
		tc.count("from_calls", 1)
		tc.count("stealth_edits_checked", 1)
		if err != nil || !bytes.Equal(got, want2) {
			key := "stale-after-same-size-same-mtime-edit"
			if err == nil && !bytes.Equal(got, want) {
				key = "payload-mismatch-after-edit"
			}
			tc.violate(key, fmt.Sprintf("file %q was rewritten with different content of the same length and its modification time restored; the payload built afterwards does not reflect the new content (%v)", e.Name, err), map[string]any{"expected": head(want2), "got": head(got)})
		}
		os.WriteFile(p, b, fi.Mode().Perm())
		os.Chtimes(p, fi.ModTime(), fi.ModTime())
		break
	}
}

// census counts what was generated.
func (tc *treeCheck) census() {
	overlap, eligible, nlAdded := false, 0, 0
	var walk func(es []*entry, top bool)
	walk = func(es []*entry, top bool) {
		for _, e := range es {
			tc.count("files_generated:"+e.Kind.String(), 1)
			if e.dot() {
				tc.count("files_generated:dotfiles", 1)
				if top && e.regular() && tc.tb.first(e.Name) != nil {
					tc.count("files_generated:dotfiles_matching_a_pattern", 1)
				}
			}
			switch e.Kind {
			case kLinkFile, kLinkDir:
				tc.count("files_generated:symlinks_valid", 1)
			case kDangling:
				tc.count("files_generated:symlinks_dangling", 1)
				if e.Odd {
					tc.count("files_generated:dangling_links_failing_otherwise_than_enoent", 1)
					if e.dot() && tc.tb.first(strings.TrimLeft(e.Name, ".#")) != nil || e.dot() && tc.tb.first(e.Name) != nil {
						tc.count("files_generated:dot_links_with_eligible_looking_name_failing_otherwise_than_enoent", 1)
					}
				}
				if e.Lock {
					tc.count("files_generated:lock_links", 1)
				} else if !e.dot() {
					tc.count("files_generated:dangling_nonmatching_names", 1)
				}
			case kSocket:
				if top && !e.dot() && tc.tb.first(e.Name) != nil {
					tc.count("files_generated:sockets_with_matching_name", 1)
				}
			case kDir:
				tc.count("files_generated:subdirs", 1)
				if top && tc.tb.first(e.Name) != nil {
					tc.count("files_generated:subdirs_with_matching_name", 1)
				}
			}
			if e.regular() {
				if !top {
					tc.count("files_generated:nested_files", 1)
				}
				if len(e.Content) == 0 {
					tc.count("files_generated:empty_files", 1)
				} else if e.Content[len(e.Content)-1] != '\n' {
					tc.count("files_generated:no_trailing_newline", 1)
				}
				if strings.HasPrefix(e.Class, "non-utf8") {
					tc.count("files_generated:non_utf8", 1)
				}
				if strings.ContainsAny(e.Name, "[]*?\\") {
					tc.count("files_generated:glob_char_names", 1)
				}
				if strings.Contains(e.Name, " ") {
					tc.count("files_generated:names_with_spaces", 1)
				}
				if top && !e.dot() {
					m := 0
					for _, f := range tc.tb.Filters {
						if ok, _ := filepath.Match(f.Pattern, e.Name); ok {
							m++
						}
					}
					if m > 0 {
						eligible++
						u := apply(tc.tb.first(e.Name), e.Name, e.Content)
						if len(u) > 0 && u[len(u)-1] != '\n' {
							nlAdded++
						}
					}
					if m > 1 {
						overlap = true
					}
				}
			}
			if e.Kind == kDir {
				walk(e.Children, false)
			}
		}
	}
	walk(tc.v.top, true)
	tc.count("eligible_files", int64(eligible))
	tc.count("parts_needing_newline_insertion", int64(nlAdded))
	if eligible >= 2 {
		tc.count("trees_with_two_or_more_eligible_files", 1)
	}
	if overlap {
		tc.count("trees_with_file_matching_several_patterns", 1)
	}
}

// Run is the check.
func Run(r *mon.Run) {
	r.Rule = "one case = one generated directory tree (2-14 top-level entries: regular files, valid links to files and directories, dangling links among dot-files and non-matching names (targets that do not exist, and targets whose resolution fails otherwise: through a regular file, an over-long component, the link itself), editor lock links, sub-directories with matching names inside; names with spaces, glob characters, leading dots, several extensions; empty / newline-only / unterminated / CRLF / non-UTF-8 contents) together with one filter table (the defaults, defaults with patterns removed, or user-modified tables of overlapping patterns whose tagging filters print <pattern|name|content>). Per tree: Converter.From(dir) against the reference model, 3 sequential and 4 concurrent calls (plus concurrent SetFilter of an unrelated pattern), explicitly named single files, several sources; a sample of default-table trees through the real curlrevshell -print-ctrl-i and the shellfuncsfile tool. distinct_nontrivial = distinct (filter table, entry names, kinds, content classes) signatures. " +
		"Engine 'history': ONE Converter lives through 3-8 steps of From(dir) / From(single file) / From(several sources) / SetFilter(add a pattern) / SetFilter(another filter for a pattern) / SetFilter(pattern, nil) - preferably of the pattern that a file present in the directory is converted by - / SetFilter(a removed pattern again) / SetFilter(absent pattern, nil); the filters are tagging filters, FromShell and FromPerl; every From is judged against the reference model for the table as it is AT THAT MOMENT (a violation that a never-used converter with the same table does not show gets the key prefix 'used-converter:'). " +
		"Engine 'meta': a generated tree + table is converted with ordinary metadata (files 0644 in a 0755 directory, owned by the caller, fresh time stamps, one link, dense), then 3-8 changes of metadata that touch neither content nor eligibility are applied one after the other - permission bits of (mostly eligible) files and of targets of eligible links (0666 0777 0606 0646, 0664 0775, 0444 0400 0555, setuid/setgid/sticky, 0755 0700, 0600 0640 ...), of the directory (0777 1777 2775 0555 0500 ...), owner/group 65534 for files and directory, mtime/atime from 1901 to 3000, 1-2 more hard links (outside the directory or under a dot-name inside), the same bytes re-written with a hole (sparse) - and the directory is converted after each change: the payload must stay byte-for-byte the one built with ordinary metadata; afterwards the changed files as single sources, a never-used converter, and for a sample of default-table trees the real binaries. " +
		"Engine 'spell' (source spellings x configuration matrix): one case = one source (a generated tree or a single matched / unmatched file; names plain, with spaces, '%', '=', a leading '-' or '.') planted under one of 14 SPELLING classes - relative to the program's working directory, ./x, x/ x// x/., p//x, ../x, x below a symlinked parent, below a dot-directory, absolute, p/../x with p a real directory, a symlink as the last component, and four classes in which lexical cleaning and the operating system DISAGREE: cur/../x (./cur/../x, cur/./../x, cur//../x), /abs/cur/../x, a/cur/../../x with cur a symlink to a directory elsewhere, and ../x from a working directory reached through a symlink - with a DECOY source planted where the cleaned path points (or nothing there). The payload must be that of the source the operating system resolves the value to: reference = the model reading through the SAME spelling with os.Open/ReadDir/ReadFile, cross-checked with the plain path of what was planted. Observed at: Converter.From(spelled path) and From(spelled, plain); curlrevshell -print-ctrl-i with the flag spelled -ctrl-i V / -ctrl-i=V / --ctrl-i V / --ctrl-i=V / given twice (same value; two spellings of the same source), once under ONE other documented option and once under a PAIR drawn by index from 25 (-one-shell, -serve-files-from directory / single file / empty / spaces at the edges / relative ../ through a symlink / the source itself, -callback-address one / 36, -callback-template regular / symlink / missing, -tls-certificate-cache explicit / next to the source / empty, -log / CURLREVSHELL_LOG / relative, -no-timestamps, -ipv6-one-liners, -icanhazip, -listen-address other loopback / host name / given twice, -prompt; each itself spelled -f v, -f=v, --f v, --f=v); the shellfuncsfile tool with -no-list-function spelled five ways or absent / =false, '--', and two or three sources in a given order; and, for every third case, the real program on a pty under one option or a pair with a shell connected on /io: Tab (the bytes the shell receives = payload + list function) and Ctrl+J (the byte count announced). A deviation is attributed by control runs: same options with the plain absolute path (=> key spelled-source:<kind>:<class>), then without the options (=> configuration:<kind>:<options>), else the tree diagnosis"
	r.Assumptions = []string{
		"per-file conversion by FromPerl is taken from the library (judged by C16); the appended list function is taken from GenFuncList (judged by C18)",
		"filter patterns are well-formed; filters never fail",
		"a dangling symlink whose name matches a pattern and does not start with '.' is not covered by the statement and is never generated",
		"SetFilter on a zero Converter{} panics on this tree (nil map); user-modified tables are therefore built on NewDefaultConverter() with defaults removed by SetFilter(p, nil); the zero Converter is only used without filters",
		"files do not change during a call; FIFOs and devices are not generated",
		"history engine: SetFilter is never called while a From of the same converter runs (that is the tree engine's concurrent case, with an unrelated pattern); the trees of a history are generated for the union of all patterns the history may use, so that no dangling link ever has a non-dot name matching a pattern of any of its tables",
		"spell engine: the operating system decides what a path names (symlinks are followed, '..' is resolved after them); the value of the last -ctrl-i wins when the flag is repeated, so repeated flags only ever name the same source; options that are not about Ctrl+I (and -print-ctrl-i exiting before they are used) do not change the payload; a single file given through a symlink carries the link's own base name, which equals the target's; watchdogs of terminal sessions (30 s per step) expiring are inconclusive, an error message on Tab / Ctrl+J for an existing source is a violation",
		"meta engine: the harness runs as root (chown to 65534 is possible and every mode leaves the file readable for the caller: all modes used include owner-read anyway); a change the platform refuses is counted as not possible, and the floors then make the run inconclusive; files outside the case's own scratch directory (targets like /proc/version) are never touched; a sparse file is only counted if stat reports fewer allocated bytes than its size; the run of NUL bytes needed for a hole is first written densely (a content change, judged against the reference) and only then re-written sparsely",
	}
	n := r.N(500, 10000)
	nb := r.N(10, 100)
	// the binary sample: the first nb trees that use the default table
	sample := map[int]bool{}
	for i := 0; i < n && len(sample) < nb; i++ {
		if genTable(r.Rng("tree", i)).Kind == "default" {
			sample[i] = true
		}
	}
	bins := &binaries{}
	if !r.Replaying() {
		bins.build(r) // before the workers start, so that it is not built under load
		if bins.err != "" {
			r.Inconclusive(bins.err)
		}
	}
	nh := r.N(500, 8000)
	nm := r.N(320, 6000)
	nbm := r.N(6, 40)
	msample := map[int]bool{}
	for i := 0; i < nm && len(msample) < nbm; i++ {
		if metaTable(r.Rng("meta", i)).Kind == "default" {
			msample[i] = true
		}
	}
	// source spellings x configuration matrix (spell.go); the cases that run
	// the program on a terminal come first so that they overlap with the rest
	ns := r.N(56, 420)
	rot := r.Rng("spell-plan", 0).IntN(1000)
	copts := cfgOptions(bins)
	npty := 0
	for i := 0; i < ns; i++ {
		if i%3 == 0 {
			npty++
		}
	}
	// the spell cases mostly wait for child processes: they get a pool of their
	// own that runs beside the in-process engines
	var spellDone sync.WaitGroup
	spellDone.Add(1)
	go func() {
		defer spellDone.Done()
		mon.Parallel(ns, max(4, runtime.NumCPU()), func(j int) {
			if r.Want("spell", j) {
				checkSpell(r, j, rot, bins, copts, j%3 == 0)
			}
		})
	}()
	defer spellFloors(r, ns, npty, copts)
	defer spellDone.Wait()
	mon.Parallel(n+nh+nm, runtime.NumCPU(), func(j int) {
		switch {
		case j < n:
			if r.Want("tree", j) {
				checkTree(r, j, bins, sample[j])
			}
		case j < n+nh:
			if i := j - n; r.Want("history", i) {
				checkHistory(r, i)
			}
		default:
			if i := j - n - nh; r.Want("meta", i) {
				checkMeta(r, i, bins, msample[i])
			}
		}
	})
	fl := func(x int) int64 { return int64(x) }
	// converter histories
	r.Floor("history:histories", fl(nh))
	r.Floor("history:from_dir", fl(nh*2))
	r.Floor("history:payload_comparisons", fl(nh*2))
	r.Floor("history:from_dir_after_table_change_on_used_converter", fl(nh/2))
	r.Floor("history:from_dir_after_removal_of_a_matched_pattern", fl(nh/5))
	r.Floor("history:from_dir_right_after_removal_of_a_matched_pattern", fl(nh/8))
	r.Floor("history:from_dir_after_removal_then_other_setfilter", fl(nh/16))
	r.Floor("history:from_dir_after_putting_a_removed_pattern_back", fl(nh/20))
	r.Floor("history:from_file", fl(nh/5))
	r.Floor("history:from_file_after_removal", fl(nh/50))
	r.Floor("history:from_several", fl(nh/5))
	r.Floor("history:setfilter_add", fl(nh/4))
	r.Floor("history:setfilter_replace", fl(nh/5))
	r.Floor("history:setfilter_delete_matched", fl(nh/4))
	r.Floor("history:setfilter_delete_absent", fl(nh/10))
	r.Floor("history:setfilter_readd", fl(nh/6))
	// metadata
	r.Floor("meta:trees", fl(nm))
	r.Floor("meta:trees_with_eligible_files", fl(nm*8/10))
	r.Floor("meta:changes", fl(nm*3))
	r.Floor("meta:payload_comparisons", fl(nm*3))
	r.Floor("meta:changes_on_eligible_files:file-mode-world-writable", fl(nm/5))
	r.Floor("meta:changes_on_eligible_files:file-mode-setid-or-sticky", fl(nm/5))
	r.Floor("meta:changes_on_eligible_files:file-mode-group-writable", fl(nm/10))
	r.Floor("meta:changes_on_eligible_files:file-mode-read-only", fl(nm/6))
	r.Floor("meta:changes_on_eligible_files:file-mode-executable", fl(nm/12))
	r.Floor("meta:changes_on_eligible_files:file-owner", fl(nm/5))
	r.Floor("meta:changes_on_eligible_files:file-times", fl(nm/5))
	r.Floor("meta:changes_on_eligible_files:hard-link", fl(nm/5))
	r.Floor("meta:changes_on_eligible_files:sparse-file", fl(nm/5))
	r.Floor("meta:changes_on_targets_of_eligible_links", fl(nm/20))
	r.Floor("meta:changes:file-times-before-1970-or-after-2106", fl(nm/8))
	r.Floor("meta:changes:hard-link-count-3-or-more", fl(nm/8))
	r.Floor("meta:changes:dir-mode-world-writable", fl(nm/16))
	r.Floor("meta:changes:dir-mode-setid-or-sticky", fl(nm/16))
	r.Floor("meta:changes:dir-mode-read-only", fl(nm/20))
	r.Floor("meta:changes:dir-owner", fl(nm/4))
	r.Floor("meta:changes:dir-times", fl(nm/4))
	r.Floor("meta:singlefile_calls", fl(nm))
	r.Floor("meta:binary_runs", fl(nbm*2))
	r.Floor("trees", fl(n))
	r.Floor("payload_comparisons", fl(n*9/10))
	r.Floor("from_calls", fl(n*8))
	r.Floor("concurrent_calls", fl(n*4))
	r.Floor("sequential_repeat_calls", fl(n*3))
	r.Floor("singlefile_calls", fl(n*2))
	r.Floor("singlefile_unmatched_calls", fl(n/5))
	r.Floor("singlefile_dotfile_calls", fl(n/5))
	r.Floor("multisource_calls", fl(n/2))
	r.Floor("binary_runs", fl(nb*3))
	r.Floor("files_generated:dotfiles", fl(n/2))
	r.Floor("files_generated:dotfiles_matching_a_pattern", fl(n/10))
	r.Floor("files_generated:lock_links", fl(n/8))
	r.Floor("files_generated:dangling_nonmatching_names", fl(n/20))
	r.Floor("files_generated:dangling_links_failing_otherwise_than_enoent", fl(n/40))
	r.Floor("files_generated:dot_links_with_eligible_looking_name_failing_otherwise_than_enoent", fl(n/100))
	r.Floor("files_generated:symlinks_valid", fl(n/4))
	r.Floor("files_generated:subdirs", fl(n/4))
	r.Floor("files_generated:nested_files", fl(n/4))
	r.Floor("files_generated:empty_files", fl(n/10))
	r.Floor("files_generated:no_trailing_newline", fl(n/2))
	r.Floor("files_generated:glob_char_names", fl(n/4))
	r.Floor("parts_needing_newline_insertion", fl(n/2))
	r.Floor("trees_with_two_or_more_eligible_files", fl(n/2))
	r.Floor("trees_with_file_matching_several_patterns", fl(n/8))
	r.Floor("tables:default", fl(n/8))
	r.Floor("tables:tagged", fl(n/8))
}

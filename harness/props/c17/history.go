package c17

// Converter histories: ONE Converter lives through a sequence of uses and
// filter-table changes
//
//	From ... SetFilter(add) ... SetFilter(replace) ... SetFilter(p, nil) ... From ...
//
// and every From is judged against the reference model for the table as it is
// at that moment (the statement ranges over "every filter table (default and
// user-modified)"; it does not say "as long as the converter is new").  The
// table is changed between uses, in particular by removing the pattern that a
// file present in the directory matches, and by putting it back.

import (
	"fmt"
	"math/rand/v2"
	"os"
	"path/filepath"
	"sort"
	"strings"

	"github.com/magisterquis/curlrevshell/verifharness/mon"
)

func isTagVariant(v string) bool { return v != "shell" && v != "perl" }

// histTable is the model's table for the rows in cur (on NewDefaultConverter()).
func histTable(cur map[string]string) *table {
	t := &table{Kind: "history", Base: "default", Tagged: true}
	for p, v := range cur {
		t.Filters = append(t.Filters, filt{p, v})
		if !isTagVariant(v) {
			t.Tagged = false
		}
	}
	sort.Slice(t.Filters, func(i, j int) bool { return t.Filters[i].Pattern < t.Filters[j].Pattern })
	for _, p := range defaultPatterns {
		if _, ok := cur[p]; !ok {
			t.Removed = append(t.Removed, p)
		}
	}
	return t
}

// freshAgrees: a never-used converter built with the current table converts
// tc.src to the reference payload.
func (tc *treeCheck) freshAgrees() (bool, string) {
	if tc.src == "" {
		return false, "not compared"
	}
	want, err := refSource(tc.tb, tc.src)
	if err != nil {
		return false, "reference: " + err.Error()
	}
	got, err := install(tc.tb).From(tc.src)
	if err != nil {
		return false, "error: " + err.Error()
	}
	if string(got) != string(want) {
		return false, "differs from the reference, too: " + head(got)
	}
	return true, "gives the reference payload"
}

type histCheck struct {
	tc          *treeCheck
	rng         *rand.Rand
	cur         map[string]string // pattern -> variant, as the converter should have it now
	uni         []string          // every pattern this history may use (the tree was generated for all of them)
	deleted     map[string]string // patterns removed during this history (or before its first use) -> variant they had
	delWhenUsed map[string]bool   // patterns removed after the converter had been used
	tagOnly     bool

	used       bool // the converter has converted something
	sinceFrom  []string
	delMatched bool // since the last From: a pattern matched by a present eligible file was removed from a USED converter
	delUsed    bool // since the last From: some pattern was removed from a USED converter
	readdUsed  bool // since the last From: a pattern removed from a USED converter was put back
	lastMut    string
	steps      []string
}

// matchedBy lists the patterns of cur that are the first match of a present,
// regular, top-level non-dot file.
func (h *histCheck) matchedBy() []string {
	seen := map[string]bool{}
	var out []string
	for _, e := range h.tc.v.top {
		if e.dot() || !e.regular() {
			continue
		}
		if f := h.tc.tb.first(e.Name); f != nil && !seen[f.Pattern] {
			seen[f.Pattern] = true
			out = append(out, f.Pattern)
		}
	}
	sort.Strings(out)
	return out
}

func (h *histCheck) variantFor(p string) string {
	if !h.tagOnly {
		switch x := h.rng.IntN(10); {
		case x < 3 && p == "*.pl":
			return "perl"
		case x < 4:
			return "shell"
		}
	}
	return tagVariants[h.rng.IntN(len(tagVariants))]
}

func (h *histCheck) note(s string) {
	h.steps = append(h.steps, s)
	h.tc.hist = append(h.tc.hist, s)
}

func (h *histCheck) set(op, p, v string) {
	h.tc.conv.SetFilter(p, mkFilter(filt{p, v}))
	h.cur[p] = v
	h.tc.tb = histTable(h.cur)
	h.note(fmt.Sprintf("SetFilter(%q, %s)  [%s]", p, v, op))
	h.tc.count("setfilter_"+op, 1)
	h.sinceFrom = append(h.sinceFrom, op)
	h.lastMut = op
}

func (h *histCheck) del(p string) {
	matched := false
	for _, m := range h.matchedBy() {
		if m == p {
			matched = true
		}
	}
	_, present := h.cur[p]
	h.tc.conv.SetFilter(p, nil)
	op := "delete"
	if !present {
		op = "delete_absent"
	} else {
		h.deleted[p] = h.cur[p]
		delete(h.cur, p)
		h.tc.tb = histTable(h.cur)
		if h.used {
			h.delUsed = true
			h.delWhenUsed[p] = true
			if matched {
				h.delMatched = true
				op = "delete_matched"
			}
		}
	}
	h.note(fmt.Sprintf("SetFilter(%q, nil)  [%s]", p, op))
	h.tc.count("setfilter_"+op, 1)
	h.sinceFrom = append(h.sinceFrom, op)
	h.lastMut = op
}

func (h *histCheck) absent() []string {
	var out []string
	for _, p := range h.uni {
		if _, ok := h.cur[p]; !ok {
			out = append(out, p)
		}
	}
	return out
}

func (h *histCheck) present() []string {
	var out []string
	for p := range h.cur {
		out = append(out, p)
	}
	sort.Strings(out)
	return out
}

// mutate changes the filter table once.
func (h *histCheck) mutate() {
	rng := h.rng
	x := rng.IntN(100)
	if x < 36 { // remove a pattern, preferably one that a present file is converted by
		c := h.matchedBy()
		if len(c) == 0 || rng.IntN(5) == 0 {
			c = h.present()
		}
		if len(c) > 0 {
			h.del(c[rng.IntN(len(c))])
			return
		}
		x = 40
	}
	if x < 58 { // put back a pattern removed earlier
		var c, cu []string
		for p := range h.deleted {
			if _, ok := h.cur[p]; !ok {
				c = append(c, p)
				if h.delWhenUsed[p] {
					cu = append(cu, p)
				}
			}
		}
		if len(cu) > 0 && rng.IntN(5) != 0 {
			c = cu // preferably one that this converter has already worked with
		}
		sort.Strings(c)
		if len(c) > 0 {
			p := c[rng.IntN(len(c))]
			v := h.deleted[p]
			if rng.IntN(2) == 0 {
				v = h.variantFor(p)
			}
			if h.delWhenUsed[p] {
				h.readdUsed = true
			}
			h.set("readd", p, v)
			return
		}
		x = 60
	}
	if x < 74 { // a new pattern
		if c := h.absent(); len(c) > 0 {
			p := c[rng.IntN(len(c))]
			h.set("add", p, h.variantFor(p))
			return
		}
		x = 80
	}
	if x < 92 { // another filter for a pattern that is there
		if c := h.present(); len(c) > 0 {
			p := c[rng.IntN(len(c))]
			h.set("replace", p, h.variantFor(p))
			return
		}
	}
	// removing what is not there changes nothing
	c := h.absent()
	if len(c) == 0 {
		c = []string{"zz-c17-*.nomatch"}
	}
	h.del(c[rng.IntN(len(c))])
}

// use converts something and judges it against the table as it is now.
func (h *histCheck) use(forceDir bool) {
	tc := h.tc
	rng := h.rng
	var all []fileRef
	collectFiles(tc.v.dir, tc.v.top, &all)
	x := rng.IntN(100)
	changed := len(h.sinceFrom) > 0
	switch {
	case forceDir || x < 66 || len(all) == 0:
		tc.src = tc.v.dir
		h.note("From(dir)")
		tc.checkDir(tc.v)
		a, b := resultString(tc.conv.From(tc.v.dir)), resultString(tc.conv.From(tc.v.dir))
		tc.count("from_calls", 2)
		if a != b {
			tc.violate("nondeterministic-sequential", "repeated conversions of an unchanged directory with an unchanged table differ", map[string]any{"first": head([]byte(a)), "later": head([]byte(b))})
		}
		tc.count("from_dir", 1)
		if changed && h.used {
			tc.count("from_dir_after_table_change_on_used_converter", 1)
		}
		if h.delMatched {
			tc.count("from_dir_after_removal_of_a_matched_pattern", 1)
			if h.lastMut == "delete_matched" {
				tc.count("from_dir_right_after_removal_of_a_matched_pattern", 1)
			}
		}
		if h.delUsed && (h.lastMut == "add" || h.lastMut == "replace" || h.lastMut == "readd") {
			tc.count("from_dir_after_removal_then_other_setfilter", 1)
		}
		if h.readdUsed {
			tc.count("from_dir_after_putting_a_removed_pattern_back", 1)
		}
	case x < 84:
		// preferably a file that a removed pattern used to match
		var pref []fileRef
		for _, fr := range all {
			for p := range h.deleted {
				if ok, _ := filepath.Match(p, fr.e.Name); ok {
					pref = append(pref, fr)
					break
				}
			}
		}
		pool := all
		if len(pref) > 0 && rng.IntN(3) != 0 {
			pool = pref
		}
		fr := pool[rng.IntN(len(pool))]
		tc.src = fr.path
		h.note(fmt.Sprintf("From(file %q)", fr.e.Name))
		tc.singleFile(fr)
		tc.count("from_file", 1)
		if changed && h.used {
			tc.count("from_file_after_table_change_on_used_converter", 1)
		}
		if h.delUsed {
			tc.count("from_file_after_removal", 1)
		}
	default:
		tc.src = tc.v.dir
		h.note("From(several sources)")
		var ok []fileRef
		for _, fr := range all {
			if _, err := os.Stat(fr.path); err == nil {
				ok = append(ok, fr)
			}
		}
		tc.multiSource(rng, ok)
		tc.count("from_several", 1)
	}
	h.used = true
	h.sinceFrom = h.sinceFrom[:0]
	h.delMatched, h.delUsed, h.readdUsed, h.lastMut = false, false, false, ""
}

func checkHistory(r *mon.Run, i int) {
	rng := r.Rng("history", i)
	var start *table
	for {
		// SetFilter on a zero Converter{} is outside C17 (see the assumptions)
		if start = genTable(rng); start.Base != "zero" {
			break
		}
	}
	h := &histCheck{rng: rng, cur: map[string]string{}, deleted: map[string]string{}, delWhenUsed: map[string]bool{}, tagOnly: start.Tagged}
	uni := map[string]bool{}
	for _, f := range start.Filters {
		h.cur[f.Pattern] = f.Variant
		uni[f.Pattern] = true
	}
	for _, p := range defaultPatterns {
		uni[p] = true
	}
	for _, p := range start.Removed {
		v := "shell"
		if p == "*.pl" {
			v = "perl"
		}
		if h.tagOnly {
			v = tagVariants[rng.IntN(len(tagVariants))]
		}
		h.deleted[p] = v
	}
	for k := 2 + rng.IntN(4); k > 0; k-- {
		uni[poolPatterns[rng.IntN(len(poolPatterns))]] = true
	}
	for p := range uni {
		h.uni = append(h.uni, p)
	}
	sort.Strings(h.uni)
	// The tree is generated for the union of all patterns, so that no dangling
	// link ever has a name that matches a pattern of any table of the history.
	union := &table{Kind: "history-union", Base: "default", Tagged: h.tagOnly}
	for _, p := range h.uni {
		union.Filters = append(union.Filters, filt{p, "tag"})
	}

	base := filepath.Join(r.Work, fmt.Sprintf("h%06d", i))
	if err := os.MkdirAll(base, 0o755); err != nil {
		r.Inconclusive("mkdir: " + err.Error())
		return
	}
	defer os.RemoveAll(base)
	g := &gen{rng: rng, tb: union, base: base}
	v := g.tree()
	tb := histTable(h.cur)
	tc := &treeCheck{r: r, i: i, tb: tb, v: v, base: base, conv: install(start), cnt: map[string]int64{}, orig: v.listing(),
		engine: "history", cprefix: "history:"}
	h.tc = tc
	tc.hist = []string{"NewDefaultConverter() made into: " + start.sig()}
	defer func() {
		for k, n := range tc.cnt {
			r.Count(k, n)
		}
	}()
	if !modelAgrees(r, "history", i, tb, v) {
		return
	}
	r.Eval(1)
	tc.count("histories", 1)

	n := 3 + rng.IntN(6) // 3..8 steps
	for k := 0; k < n; k++ {
		switch {
		case k == n-1:
			h.use(true)
		case k == 0 && rng.IntN(100) < 85:
			h.use(false)
		case k > 0 && rng.IntN(100) < 58:
			h.mutate()
		case k == 0:
			h.mutate()
		default:
			h.use(false)
		}
	}
	tc.count("steps", int64(n))
	r.Distinct("history\n" + start.sig() + "\n" + strings.Join(h.steps, "\n") + "\n" + v.sig())
	if i < 60 && n >= 5 {
		r.Sample("history", map[string]any{"index": i, "start_table": start, "steps": h.steps, "entries": tc.orig})
	}
}

// modelAgrees: the model used for diagnosis must agree with what is on disk.
func modelAgrees(r *mon.Run, engine string, i int, tb *table, v *view) bool {
	_, names, err := refDir(tb, v.dir)
	var model []string
	for _, e := range v.top {
		if !e.dot() && e.regular() && tb.first(e.Name) != nil {
			model = append(model, e.Name)
		}
	}
	sort.Strings(model)
	if err != nil || strings.Join(names, "\x00") != strings.Join(model, "\x00") {
		r.Inconclusive(fmt.Sprintf("%s %d: generator model and disk disagree: %q vs %q (%v)", engine, i, model, names, err))
		return false
	}
	return true
}

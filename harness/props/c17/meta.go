package c17

// File metadata that changes neither content nor eligibility: permission bits
// of the files and of the directory, ownership, time stamps, link counts, the
// way the blocks are allocated.  Eligibility is "regular, top-level, name
// matches, no leading dot" - nothing else - so the payload must be exactly the
// one built from the same tree with ordinary metadata (0644 files in a 0755
// directory, owned by the caller, fresh time stamps, one link, dense).
//
// One case = one generated tree + table, converted once with ordinary metadata
// (judged like any tree), then 3-8 metadata changes applied one after the
// other, the directory converted after each of them: the first change after
// which the conversion fails or the payload differs names the violation.

import (
	"bytes"
	"fmt"
	"math/rand/v2"
	"os"
	"path/filepath"
	"strings"
	"syscall"
	"time"

	"github.com/magisterquis/curlrevshell/verifharness/mon"
)

// raw mode bits as chmod(2) takes them; every one leaves the owner able to read
var fileModes = []uint32{
	0o666, 0o777, 0o606, 0o646, 0o602 | 0o044, // world-writable (files on mounts that report 0777, umask 0, chmod o+w)
	0o664, 0o660, 0o775, // group-writable
	0o444, 0o400, 0o440, 0o555, 0o500, // read-only
	0o4755, 0o2755, 0o1644, 0o6711 | 0o044, 0o4644, 0o2660, 0o1755, // setuid / setgid / sticky
	0o755, 0o700, 0o711 | 0o044, // executable
	0o600, 0o640, 0o604, // other
	0o6777, 0o1777, 0o2666,
}

var dirModes = []uint32{
	0o777, 0o1777, 0o757, 0o773, // world-writable (like /tmp, or a mount reporting 0777)
	0o2775, 0o2755, 0o1755, 0o4755, // setgid / sticky
	0o555, 0o500, 0o550, // read-only
	0o700, 0o750, 0o711 | 0o044, 0o775,
}

func fileModeClass(m uint32) string {
	switch {
	case m&0o002 != 0:
		return "file-mode-world-writable"
	case m&0o7000 != 0:
		return "file-mode-setid-or-sticky"
	case m&0o020 != 0:
		return "file-mode-group-writable"
	case m&0o222 == 0:
		return "file-mode-read-only"
	case m&0o111 != 0:
		return "file-mode-executable"
	}
	return "file-mode-other"
}

func dirModeClass(m uint32) string {
	switch {
	case m&0o002 != 0:
		return "dir-mode-world-writable"
	case m&0o7000 != 0:
		return "dir-mode-setid-or-sticky"
	case m&0o222 == 0:
		return "dir-mode-read-only"
	}
	return "dir-mode-other"
}

// time stamps: the epoch and before it, the 32-bit limits, the far future
var stamps = []int64{
	0, 1, -1, -2147483648, -2147483649, 86400, 315532800, 2147483647, 2147483648, 4294967295, 4294967296,
	9223372036 /* 2262, the end of a 64-bit nanosecond count */, 13569465600 /* 2400 */, 32503680000, /* 3000 */
}

const otherID = 65534

type metaCheck struct {
	tc      *treeCheck
	rng     *rand.Rand
	p0      []byte // the payload with ordinary metadata
	elig    []*entry
	touched map[*entry]bool
	nlink   int
	failed  bool
}

// target resolves the path whose inode a change of e's metadata would hit:
// the file itself, or what a valid link points to - provided that is a file
// this case owns.
func (m *metaCheck) target(e *entry) (string, bool) {
	p := filepath.Join(m.tc.v.dir, e.Name)
	if e.Kind == kLinkFile {
		rp, err := filepath.EvalSymlinks(p)
		if err != nil {
			return "", false
		}
		rb, err := filepath.EvalSymlinks(m.tc.base)
		if err != nil || !strings.HasPrefix(rp, rb+string(filepath.Separator)) {
			return "", false // /proc/version and the like are not ours to change
		}
		return rp, true
	}
	return p, e.Kind == kFile
}

// pickFile chooses the file to change: mostly an eligible one.
func (m *metaCheck) pickFile() (*entry, string, bool) {
	rng := m.rng
	if len(m.tc.v.top) == 0 {
		return nil, "", false
	}
	for try := 0; try < 8; try++ {
		var e *entry
		if len(m.elig) > 0 && rng.IntN(6) != 0 {
			e = m.elig[rng.IntN(len(m.elig))]
		} else {
			e = m.tc.v.top[rng.IntN(len(m.tc.v.top))]
		}
		if p, ok := m.target(e); ok {
			return e, p, true
		}
	}
	return nil, "", false
}

func (m *metaCheck) eligible(e *entry) bool {
	return !e.dot() && e.regular() && m.tc.tb.first(e.Name) != nil
}

// after converts the directory once more and compares with the payload built
// under ordinary metadata.
func (m *metaCheck) after(class, what string, e *entry) {
	tc := m.tc
	tc.hist = append(tc.hist, what)
	tc.count("changes", 1)
	tc.count("changes:"+class, 1)
	if e != nil {
		m.touched[e] = true
		if m.eligible(e) {
			tc.count("changes_on_eligible_files", 1)
			tc.count("changes_on_eligible_files:"+class, 1)
			if e.Kind == kLinkFile {
				tc.count("changes_on_targets_of_eligible_links", 1)
			}
		} else {
			tc.count("changes_on_ineligible_files", 1)
		}
	}
	got, err := tc.conv.From(tc.v.dir)
	tc.count("from_calls", 1)
	w := map[string]any{"change": what, "dir": tc.v.dir, "payload_with_ordinary_metadata": head(m.p0)}
	if e != nil {
		w["file"] = e.describe()
	}
	if err != nil {
		m.failed = true
		w["error"] = err.Error()
		tc.violate("metadata-"+class+"-fails-conversion", fmt.Sprintf("Converter.From(dir) fails after a change of metadata that touches neither content nor eligibility (%s): %v", what, err), w)
		return
	}
	if bytes.Equal(got, m.p0) {
		tc.count("payload_comparisons", 1)
		return
	}
	m.failed = true
	if want, _, rerr := refDir(tc.tb, tc.v.dir); rerr != nil || !bytes.Equal(want, m.p0) {
		tc.r.Inconclusive(fmt.Sprintf("meta %d: the reference itself changed after %s (%v)", tc.i, what, rerr))
		return
	}
	w["got"] = head(got)
	var why []string
	for _, f := range judgeDir(tc.tb, tc.v, got, m.p0) {
		why = append(why, fmt.Sprintf("%s: %s %q", f.key, f.what, f.names))
	}
	w["diagnosis"] = why
	tc.violate("metadata-"+class+"-changes-payload", fmt.Sprintf("the directory payload differs after a change of metadata that touches neither content nor eligibility (%s): %s", what, strings.Join(why, "; ")), w)
}

func stampString(s int64) string { return time.Unix(s, 0).UTC().Format("2006-01-02T15:04:05Z") }

func (m *metaCheck) change(class int) {
	tc := m.tc
	rng := m.rng
	dir := tc.v.dir
	switch class {
	case 0: // permission bits of a file
		e, p, ok := m.pickFile()
		if !ok {
			return
		}
		md := fileModes[rng.IntN(len(fileModes))]
		if err := syscall.Chmod(p, md); err != nil {
			tc.count("changes_not_possible_here", 1)
			return
		}
		m.after(fileModeClass(md), fmt.Sprintf("chmod %04o %q", md, e.Name), e)
	case 1: // permission bits of the directory
		md := dirModes[rng.IntN(len(dirModes))]
		if err := syscall.Chmod(dir, md); err != nil {
			tc.count("changes_not_possible_here", 1)
			return
		}
		m.after(dirModeClass(md), fmt.Sprintf("chmod %04o <dir>", md), nil)
	case 2: // a file owned by somebody else
		e, p, ok := m.pickFile()
		if !ok {
			return
		}
		uid, gid := otherID, otherID
		switch rng.IntN(4) {
		case 0:
			gid = -1
		case 1:
			uid = -1
		}
		if err := os.Chown(p, uid, gid); err != nil {
			tc.count("changes_not_possible_here", 1)
			return
		}
		m.after("file-owner", fmt.Sprintf("chown %d:%d %q", uid, gid, e.Name), e)
	case 3: // the directory owned by somebody else
		if err := os.Chown(dir, otherID, otherID); err != nil {
			tc.count("changes_not_possible_here", 1)
			return
		}
		m.after("dir-owner", fmt.Sprintf("chown %d:%d <dir>", otherID, otherID), nil)
	case 4, 5: // time stamps
		mt, at := stamps[rng.IntN(len(stamps))], stamps[rng.IntN(len(stamps))]
		if rng.IntN(3) == 0 {
			at = mt
		}
		p, name, cl := dir, "<dir>", "dir-times"
		var e *entry
		if class == 4 {
			var ok bool
			if e, p, ok = m.pickFile(); !ok {
				return
			}
			name, cl = fmt.Sprintf("%q", e.Name), "file-times"
		}
		if err := os.Chtimes(p, time.Unix(at, 0), time.Unix(mt, 0)); err != nil {
			tc.count("changes_not_possible_here", 1)
			return
		}
		if mt <= 0 || mt > 4294967295 {
			tc.count("changes:"+cl+"-before-1970-or-after-2106", 1)
		}
		m.after(cl, fmt.Sprintf("mtime %s atime %s on %s", stampString(mt), stampString(at), name), e)
	case 6: // more names for the same inode
		e, p, ok := m.pickFile()
		if !ok {
			return
		}
		k := 1 + rng.IntN(2)
		made := 0
		var where []string
		for ; k > 0; k-- {
			m.nlink++
			lp := filepath.Join(tc.base, "ext", fmt.Sprintf("hardlink-%d", m.nlink))
			w := "outside the directory"
			if tc.tb.Tagged && rng.IntN(3) == 0 {
				// under a dot-name in the same directory: one more ineligible entry
				ne := &entry{Name: fmt.Sprintf(".hardlink-%d-%s", m.nlink, e.Name), Kind: kFile, Content: e.Content, Class: e.Class}
				if len(ne.Name) > 200 {
					continue
				}
				lp = filepath.Join(dir, ne.Name)
				if os.Link(p, lp) == nil {
					tc.v.top = append(tc.v.top, ne)
					made++
					where = append(where, "as "+ne.Name)
				}
				continue
			}
			if os.Link(p, lp) == nil {
				made++
				where = append(where, w)
			}
		}
		if made == 0 {
			tc.count("changes_not_possible_here", 1)
			return
		}
		var st syscall.Stat_t
		if syscall.Stat(p, &st) == nil && st.Nlink >= 3 {
			tc.count("changes:hard-link-count-3-or-more", 1)
		}
		m.after("hard-link", fmt.Sprintf("%d more hard link(s) to %q (%s)", made, e.Name, strings.Join(where, ", ")), e)
	case 7: // the same bytes, allocated sparsely
		var c []*entry
		for _, e := range m.elig {
			if f := tc.tb.first(e.Name); e.Kind == kFile && f != nil && f.Variant != "perl" {
				c = append(c, e)
			}
		}
		if len(c) == 0 {
			return
		}
		e := c[rng.IntN(len(c))]
		p := filepath.Join(dir, e.Name)
		fi, err := os.Stat(p)
		if err != nil {
			return
		}
		hole := 4096*(2+rng.IntN(6)) + rng.IntN(4096)
		headB := append([]byte{}, e.Content...)
		tailB := []byte(fmt.Sprintf("\n# end of %d\n", len(headB)))
		if rng.IntN(3) == 0 {
			tailB = nil // the hole is the end of the file
		}
		nc := append(append(append([]byte{}, headB...), make([]byte, hole)...), tailB...)
		// (a) written densely: this is a change of CONTENT, judged against the reference like any tree
		if os.WriteFile(p, nc, fi.Mode().Perm()) != nil {
			return
		}
		e.Content, e.Class = nc, "zero-run"
		for _, o := range tc.v.top { // links to it inside the directory see the new content, too
			if o.Kind == kLinkFile && o.Target == p {
				o.Content, o.Class = nc, "zero-run"
			}
		}
		tc.hist = append(tc.hist, fmt.Sprintf("content of %q extended by a run of %d NUL bytes, written densely", e.Name, hole))
		dense, err := tc.conv.From(dir)
		tc.count("from_calls", 1)
		if err != nil {
			m.failed = true
			tc.judgeFail("Converter.From(dir)", tc.v, err.Error())
			return
		}
		want, _, rerr := refDir(tc.tb, dir)
		if rerr != nil {
			tc.r.Inconclusive("reference could not read the generated tree: " + rerr.Error())
			m.failed = true
			return
		}
		if !bytes.Equal(dense, want) {
			m.failed = true
			tc.judge("Converter.From(dir)", tc.v, dense)
			return
		}
		m.p0 = want
		// (b) the same bytes with a hole
		if os.Remove(p) != nil {
			return
		}
		f, err := os.OpenFile(p, os.O_CREATE|os.O_EXCL|os.O_WRONLY, 0o644)
		if err != nil {
			tc.r.Inconclusive("re-creating a file: " + err.Error())
			m.failed = true
			return
		}
		_, e1 := f.WriteAt(headB, 0)
		var e2, e3 error
		if len(tailB) > 0 {
			_, e2 = f.WriteAt(tailB, int64(len(headB)+hole))
		} else {
			e3 = f.Truncate(int64(len(nc)))
		}
		e4 := f.Close()
		if e1 != nil || e2 != nil || e3 != nil || e4 != nil {
			os.WriteFile(p, nc, 0o644)
			tc.count("changes_not_possible_here", 1)
			return
		}
		var st syscall.Stat_t
		if b, err := os.ReadFile(p); err != nil || !bytes.Equal(b, nc) || syscall.Stat(p, &st) != nil || st.Blocks*512 >= int64(len(nc)) {
			os.WriteFile(p, nc, 0o644)
			tc.count("sparse_files_not_supported_here", 1)
			return
		}
		m.after("sparse-file", fmt.Sprintf("%q rewritten with the same %d bytes, %d of them a hole (%d blocks allocated)", e.Name, len(nc), hole, st.Blocks), e)
	}
}

const nMetaClasses = 8

// metaTable: any table with at least one filter.
func metaTable(rng *rand.Rand) *table {
	for {
		if tb := genTable(rng); len(tb.Filters) > 0 {
			return tb
		}
	}
}

func checkMeta(r *mon.Run, i int, bins *binaries, binSample bool) {
	rng := r.Rng("meta", i)
	tb := metaTable(rng)
	base := filepath.Join(r.Work, fmt.Sprintf("m%06d", i))
	if err := os.MkdirAll(base, 0o755); err != nil {
		r.Inconclusive("mkdir: " + err.Error())
		return
	}
	g := &gen{rng: rng, tb: tb, base: base}
	v := g.tree()
	defer func() {
		syscall.Chmod(v.dir, 0o755)
		os.RemoveAll(base)
	}()
	tc := &treeCheck{r: r, i: i, tb: tb, v: v, base: base, conv: install(tb), cnt: map[string]int64{}, orig: v.listing(),
		engine: "meta", cprefix: "meta:"}
	defer func() {
		for k, n := range tc.cnt {
			r.Count(k, n)
		}
	}()
	if !modelAgrees(r, "meta", i, tb, v) {
		return
	}
	r.Eval(1)
	tc.count("trees", 1)
	// ordinary metadata first
	tc.checkDir(v)
	p0, _, err := refDir(tb, v.dir)
	if err != nil {
		r.Inconclusive("reference could not read the generated tree: " + err.Error())
		return
	}
	if got, err := tc.conv.From(v.dir); err != nil || !bytes.Equal(got, p0) {
		tc.count("trees_wrong_already_with_ordinary_metadata", 1) // reported by checkDir above
		return
	}
	m := &metaCheck{tc: tc, rng: rng, p0: p0, touched: map[*entry]bool{}}
	for _, e := range v.top {
		if m.eligible(e) {
			m.elig = append(m.elig, e)
		}
	}
	if len(m.elig) > 0 {
		tc.count("trees_with_eligible_files", 1)
	}
	tc.hist = []string{"converted with ordinary metadata: as the reference"}
	n := 3 + rng.IntN(6)
	var classes []string
	for k := 0; k < n && !m.failed; k++ {
		c := rng.IntN(nMetaClasses)
		if k == 0 {
			c = i % nMetaClasses // every class comes first in its share of the cases
		} else if rng.IntN(3) == 0 {
			c = 0
		}
		before := len(tc.hist)
		m.change(c)
		if len(tc.hist) > before {
			classes = append(classes, tc.hist[len(tc.hist)-1])
		}
	}
	r.Distinct("meta\n" + tb.sig() + "\n" + v.sig() + "\n" + strings.Join(classes, "\n"))
	if m.failed {
		return
	}
	// the files that were changed, named explicitly; a converter that never saw
	// the tree with ordinary metadata; the same again
	for _, e := range v.top {
		if _, ok := m.target(e); ok && m.touched[e] && e.regular() {
			tc.singleFile(fileRef{filepath.Join(v.dir, e.Name), e})
		}
	}
	for k, c := range []*struct {
		what string
		from func() ([]byte, error)
	}{
		{"a converter that never saw the tree with ordinary metadata", func() ([]byte, error) { return install(tb).From(v.dir) }},
		{"the same converter once more", func() ([]byte, error) { return tc.conv.From(v.dir) }},
	} {
		got, err := c.from()
		tc.count("from_calls", 1)
		if err != nil || !bytes.Equal(got, m.p0) {
			tc.violate("metadata-fails-conversion-or-changes-payload", fmt.Sprintf("%s: Converter.From(dir) after metadata changes: %v", c.what, err), map[string]any{"got": head(got), "want": head(m.p0), "call": k})
			return
		}
	}
	if binSample {
		bins.build(r)
		if bins.err != "" {
			r.Inconclusive(bins.err)
			return
		}
		for _, s := range []struct {
			where string
			path  string
			args  []string
			list  bool
		}{
			{"curlrevshell -print-ctrl-i -ctrl-i <dir>", bins.crs, []string{"-print-ctrl-i", "-ctrl-i", v.dir}, true},
			{"shellfuncsfile -no-list-function <dir>", bins.tool, []string{"-no-list-function", v.dir}, false},
		} {
			res := bins.run(s.path, s.args...)
			tc.count("binary_runs", 1)
			if res.TimedOut {
				r.Inconclusive(s.where + ": watchdog fired twice")
				continue
			}
			if res.Status != 0 {
				tc.violate("metadata-fails-conversion-in-binary", fmt.Sprintf("%s fails on a directory whose metadata (not content, not eligibility) was changed: exit status %d stderr %q", s.where, res.Status, tailStr(res.Stderr)), nil)
				continue
			}
			body := res.Stdout
			if s.list {
				var ok bool
				if body, ok = splitList(res.Stdout); !ok {
					tc.violate("binary-listfunc-mismatch", s.where+": output does not end in the list function generated from the payload before it", map[string]any{"stdout": head(res.Stdout)})
					if body == nil {
						continue
					}
				}
			}
			tc.judge(s.where, v, body)
		}
	}
	if i < 80 && len(classes) >= 4 {
		r.Sample("meta", map[string]any{"index": i, "table": tb, "entries": tc.orig, "changes": classes})
	}
}

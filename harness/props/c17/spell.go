package c17

// Engine "spell": the SPELLING of the source and the CONFIGURATION of the
// program around it.  The statement speaks of "a directory" / "a single file":
// which one that is, is decided by the operating system from the value given
// (-ctrl-i VALUE, the tool's arguments, Converter.From's arguments) and the
// working directory - not by any textual normalisation of the value.  One case
// = one fixture (a generated directory tree or a single file under a chosen
// name, reachable through a chosen spelling from a chosen working directory,
// with a DECOY source planted where lexical cleaning of the value - or of
// $PWD/value - points whenever that differs from what the OS resolves) and
//
//   - Converter.From(spelled path) in-process,
//   - curlrevshell -print-ctrl-i with the flag spelled -ctrl-i V / -ctrl-i=V /
//     --ctrl-i V / --ctrl-i=V / given twice, under one other documented option
//     and under a pair of them (configuration matrix),
//   - the shellfuncsfile tool with its flag spellings, "--", two sources,
//   - for a share of the cases the real program on a pty with a connected shell:
//     Tab / Ctrl+I (the bytes the shell receives) and Ctrl+J.
//
// Reference: the existing model (refDir / refFile rules) reading through the
// SAME spelling with os.Open / os.ReadDir / os.ReadFile (which hand the string
// to the kernel as it is), cross-checked against the plain absolute path of
// the source the fixture planted.

import (
	"bytes"
	"fmt"
	"io"
	"os"
	"path/filepath"
	"regexp"
	"sort"
	"strconv"
	"strings"
	"sync"
	"time"

	"github.com/magisterquis/curlrevshell/lib/shellfuncsfile"
	"github.com/magisterquis/curlrevshell/verifharness/mon"
	"github.com/magisterquis/curlrevshell/verifharness/mon/crs"
	"github.com/magisterquis/curlrevshell/verifharness/mon/ptyx"
)

func defaultTable() *table {
	return &table{Kind: "default", Base: "default", Filters: []filt{{"*.pl", "perl"}, {"*.sh", "shell"}, {"*.subr", "shell"}}}
}

// ---- reference through a spelling ---------------------------------------------

// refDirRaw is refDir without any path cleaning: the directory is opened under
// the string given and its entries are reached as dir + "/" + name.
func refDirRaw(t *table, dir string) ([]byte, error) {
	f, err := os.Open(dir)
	if err != nil {
		return nil, err
	}
	des, err := f.ReadDir(-1)
	f.Close()
	if err != nil {
		return nil, err
	}
	var names []string
	for _, de := range des {
		n := de.Name()
		if strings.HasPrefix(n, ".") || t.first(n) == nil {
			continue
		}
		fi, err := os.Stat(dir + "/" + n)
		if err != nil || !fi.Mode().IsRegular() {
			continue
		}
		names = append(names, n)
	}
	sort.Strings(names)
	var out []byte
	for _, n := range names {
		b, err := os.ReadFile(dir + "/" + n)
		if err != nil {
			return nil, err
		}
		out = append(out, nlTerm(apply(t.first(n), n, b))...)
	}
	return out, nil
}

// refSpelled is the payload of the source the OS resolves p to.  name is the
// name handed to a filter for a single file (the value as given).
func refSpelled(t *table, p, name string) (b []byte, err error) {
	defer func() {
		if x := recover(); x != nil {
			err = fmt.Errorf("reference: %v", x)
		}
	}()
	fi, err := os.Stat(p)
	if err != nil {
		return nil, err
	}
	if fi.IsDir() {
		return refDirRaw(t, p)
	}
	c, err := os.ReadFile(p)
	if err != nil {
		return nil, err
	}
	if f := t.first(filepath.Base(p)); f != nil {
		return nlTerm(apply(f, name, c)), nil
	}
	return c, nil
}

// ---- fixtures ---------------------------------------------------------------------

var spellClasses = []string{
	"relative", "dot-slash", "trailing-slash", "double-slash", "dotdot",
	"symlink-dotdot", "symlinked-parent", "dot-directory", "absolute",
	"abs-symlink-dotdot", "real-dotdot", "symlink-last", "symlink-dotdot-deep",
	"cwd-symlink-dotdot",
}

// classes in which lexical cleaning (of the value or of $PWD/value) and the
// operating system disagree about what the value names
var disagreeing = map[string]bool{"symlink-dotdot": true, "abs-symlink-dotdot": true, "symlink-dotdot-deep": true, "cwd-symlink-dotdot": true}

var spellNames = []string{
	"funcs", "my funcs", " lead", "trail ", "50%s", "a=b", "-funcs", ".dotsrc", "100%", "=x", "--", "lib.sh",
	"é%41", "-ctrl-i", "x y=%d-", "f.d", "-no-list-function", "%", "a b  c", ".hidden funcs",
}

var spellExts = []string{".sh", ".txt", ".subr", ".pl", "", ".sh", ".SH"}

type spellCase struct {
	i       int
	class   string
	F       string // fixture root
	home    string // HOME of the programs (never the working directory)
	cwd     string // working directory of the programs
	value   string // the source as spelled
	full    string // the same as the harness (another working directory) must spell it
	alt     string // plain absolute path of the planted source
	decoy   string // plain absolute path of the decoy source ("" = none planted)
	cleanTo string // where lexical cleaning points, if that is not the source
	name    string
	isDir   bool
	kind    string // dir / file-matched / file-unmatched
	v       *view
	extra   string // a second, small source in the working directory
	extraB  []byte
}

func nameClass(n string) string {
	switch {
	case strings.HasPrefix(n, "-"):
		return "leading-dash"
	case strings.Contains(n, "%"):
		return "percent"
	case strings.Contains(n, "="):
		return "equals"
	case strings.HasPrefix(n, "."):
		return "leading-dot"
	case strings.Contains(n, " "):
		return "space"
	}
	return "plain"
}

// buildSpell plants the fixture of case i.
func buildSpell(r *mon.Run, i, rot int, tb *table) (*spellCase, error) {
	nc := len(spellClasses)
	class := spellClasses[i%nc]
	k := i / nc // round
	sc := &spellCase{i: i, class: class, F: filepath.Join(r.Work, fmt.Sprintf("s%05d", i))}
	F := sc.F
	var firstErr error
	mk := func(p string) string {
		if err := os.MkdirAll(p, 0o755); err != nil && firstErr == nil {
			firstErr = err
		}
		return p
	}
	ln := func(target, at string) {
		if err := os.Symlink(target, at); err != nil && firstErr == nil {
			firstErr = err
		}
	}
	sc.home = mk(F + "/home")
	w := mk(F + "/w")
	sc.cwd = w
	// what the source is
	switch (i + k) % 3 {
	case 0, 1:
		sc.isDir, sc.kind = true, "dir"
		if (i+k)%3 == 1 && k%2 == 1 {
			sc.isDir = false
		}
	default:
		sc.isDir = false
	}
	name := spellNames[(i*5+rot+k)%len(spellNames)]
	rng := r.Rng("spell", i)
	if !sc.isDir {
		ext := spellExts[(i+2*k+rot)%len(spellExts)]
		if ext == ".pl" { // FromPerl must accept the name (per-file conversion is C16's business)
			if _, err := shellfuncsfile.FromPerl(name+ext, strings.NewReader("print 1;\n")); err != nil {
				ext = ".sh"
			}
		}
		name += ext
		if tb.first(name) != nil {
			sc.kind = "file-matched"
		} else {
			sc.kind = "file-unmatched"
		}
	}
	sc.name = name
	rp, dp := w, "" // parent of the source, parent of the decoy
	v := name
	switch class {
	case "relative":
	case "dot-slash":
		v = []string{"./", "././", ".//"}[k%3] + name
	case "trailing-slash":
		if sc.isDir {
			v = name + []string{"/", "//", "/."}[k%3]
		} else {
			v = ".//" + name
		}
	case "double-slash":
		rp = mk(w + "/p")
		v = []string{"p//", "p///", "p/.//"}[k%3] + name
	case "dotdot":
		if k%2 == 0 {
			sc.cwd = mk(w + "/sub")
			v = "../" + name
		} else {
			sc.cwd = mk(w + "/sub/sub 2")
			v = "../../" + name
		}
	case "symlink-dotdot", "abs-symlink-dotdot":
		rp = mk(F + "/store/releases")
		mk(rp + "/v2")
		if k%2 == 0 {
			ln("../store/releases/v2", w+"/cur")
		} else {
			ln(rp+"/v2", w+"/cur")
		}
		if (k/2)%2 == 0 || i%2 == 0 {
			dp = w
		}
		sc.cleanTo = w + "/" + name
		v = []string{"cur/../", "./cur/../", "cur/./../", "cur//../"}[(k+i)%4] + name
		if class == "abs-symlink-dotdot" {
			v = w + "/cur/../" + name
			sc.cwd = mk(F + "/other")
		}
	case "symlink-dotdot-deep":
		rp = mk(F + "/store")
		mk(rp + "/x/y")
		mk(w + "/a")
		ln(rp+"/x/y", w+"/a/cur")
		if k%2 == 0 {
			dp = w
		}
		sc.cleanTo = w + "/" + name
		v = "a/cur/../../" + name
	case "cwd-symlink-dotdot":
		// the working directory is reached through a symlink: $PWD/.. and the
		// kernel's .. are different directories
		rp = mk(F + "/store/deep")
		mk(rp + "/wd")
		ln("store/deep/wd", F+"/wl")
		sc.cwd = F + "/wl"
		if k%2 == 0 {
			dp = F
		}
		sc.cleanTo = F + "/" + name
		v = "../" + name
	case "symlinked-parent":
		rp = mk(F + "/elsewhere")
		ln("../elsewhere", w+"/lnk")
		v = "lnk/" + name
		if k%2 == 1 {
			ln("lnk", w+"/lnk 2")
			v = "lnk 2/" + name
		}
	case "dot-directory":
		rp = mk(w + "/.hid")
		v = ".hid/" + name
		if k%2 == 1 {
			rp = mk(w + "/.hid/..d")
			v = ".hid/..d/" + name
		}
	case "absolute":
		sc.cwd = mk(F + "/other")
		v = w + "/" + name
		if k%2 == 1 {
			v = w + "/.//" + name
		}
	case "real-dotdot":
		mk(w + "/p/q")
		v = []string{"p/../", "p/q/../../", "./p/./../"}[k%3] + name
	case "symlink-last":
		rp = mk(F + "/elsewhere")
		if k%2 == 0 {
			ln("../elsewhere/"+name, w+"/"+name)
		} else {
			ln(rp+"/"+name, w+"/"+name)
		}
	}
	if firstErr != nil {
		return nil, firstErr
	}
	sc.value = v
	sc.full = v
	if !strings.HasPrefix(v, "/") {
		sc.full = sc.cwd + "/" + v
	}
	sc.alt = rp + "/" + name
	plant := func(parent string, g *gen) *view {
		if sc.isDir {
			g.base, g.dname = parent, name
			return g.tree()
		}
		c, cl, mkd := g.content(name, false)
		e := &entry{Name: name, Kind: kFile, Content: c, Class: cl, Marker: mkd}
		if err := os.WriteFile(parent+"/"+name, c, 0o644); err != nil && firstErr == nil {
			firstErr = err
		}
		return &view{dir: parent, top: []*entry{e}}
	}
	sc.v = plant(rp, &gen{rng: rng, tb: tb})
	if dp != "" {
		plant(dp, &gen{rng: r.Rng("spell-decoy", i), tb: tb, nextID: 500})
		sc.decoy = dp + "/" + name
	}
	// a second source next to the working directory's entries
	sc.extra = "0 extra.subr"
	sc.extraB = []byte(fmt.Sprintf("extra%d() { echo '@@9%02d@@'; }", i, i%100))
	phys, err := filepath.EvalSymlinks(sc.cwd)
	if err != nil {
		return nil, err
	}
	if err := os.WriteFile(phys+"/"+sc.extra, sc.extraB, 0o644); err != nil {
		return nil, err
	}
	return sc, firstErr
}

// ---- configuration matrix -------------------------------------------------------------

type cfgOpt struct {
	name string
	pty  bool // usable when the program is to run (not only print and exit)
	mk   func(sc *spellCase, k int) (args, env []string)
}

var defaultTemplate struct {
	once sync.Once
	b    []byte
}

func tmplFile(sc *spellCase, b *binaries) string {
	defaultTemplate.once.Do(func() {
		res := b.run(b.crs, "-print-default-template")
		defaultTemplate.b = res.Stdout
	})
	p := sc.F + "/cb.tmpl"
	os.WriteFile(p, defaultTemplate.b, 0o644)
	return p
}

func cfgOptions(b *binaries) []cfgOpt {
	two := func(k int, flag, val string) []string {
		switch k % 4 {
		case 0:
			return []string{"-" + flag, val}
		case 1:
			return []string{"-" + flag + "=" + val}
		case 2:
			return []string{"--" + flag, val}
		}
		return []string{"--" + flag + "=" + val}
	}
	boolf := func(k int, flag string) []string {
		return []string{[]string{"-" + flag, "--" + flag, "-" + flag + "=true", "--" + flag + "=1"}[k%4]}
	}
	return []cfgOpt{
		{"one-shell", true, func(sc *spellCase, k int) ([]string, []string) { return boolf(k, "one-shell"), nil }},
		{"serve-files-from:directory", true, func(sc *spellCase, k int) ([]string, []string) {
			d := sc.F + "/served"
			os.MkdirAll(d, 0o755)
			os.WriteFile(d+"/one.txt", []byte("served\n"), 0o644)
			return two(k, "serve-files-from", d), nil
		}},
		{"serve-files-from:single-file", true, func(sc *spellCase, k int) ([]string, []string) {
			d := sc.F + "/served1"
			os.MkdirAll(d, 0o755)
			os.WriteFile(d+"/one.txt", []byte("served\n"), 0o644)
			return two(k, "serve-files-from", d+"/one.txt"), nil
		}},
		{"serve-files-from:empty", true, func(sc *spellCase, k int) ([]string, []string) { return two(k, "serve-files-from", ""), nil }},
		{"serve-files-from:spaces-at-the-edges", true, func(sc *spellCase, k int) ([]string, []string) {
			phys, _ := filepath.EvalSymlinks(sc.cwd)
			os.MkdirAll(phys+"/ served ", 0o755)
			return two(k, "serve-files-from", " served "), nil
		}},
		{"serve-files-from:relative-dotdot-symlinked", true, func(sc *spellCase, k int) ([]string, []string) {
			phys, _ := filepath.EvalSymlinks(sc.cwd)
			os.MkdirAll(sc.F+"/served-real", 0o755)
			os.Symlink(sc.F+"/served-real", phys+"/../c17-served-link")
			return two(k, "serve-files-from", "../c17-served-link"), nil
		}},
		{"serve-files-from:the-source-itself", true, func(sc *spellCase, k int) ([]string, []string) {
			return two(k, "serve-files-from", sc.value), nil
		}},
		{"callback-address:one", true, func(sc *spellCase, k int) ([]string, []string) {
			return two(k, "callback-address", "c17.example.com:8443"), nil
		}},
		{"callback-address:dozens", true, func(sc *spellCase, k int) ([]string, []string) {
			var a []string
			for j := 0; j < 36; j++ {
				a = append(a, two(k+j, "callback-address", fmt.Sprintf("h%d.c17.example.com", j))...)
			}
			return a, nil
		}},
		{"callback-template:regular-file", true, func(sc *spellCase, k int) ([]string, []string) {
			return two(k, "callback-template", tmplFile(sc, b)), nil
		}},
		{"callback-template:symlink", true, func(sc *spellCase, k int) ([]string, []string) {
			t := tmplFile(sc, b)
			os.Symlink(t, sc.F+"/cb-link.tmpl")
			return two(k, "callback-template", sc.F+"/cb-link.tmpl"), nil
		}},
		{"callback-template:missing-at-start-up", true, func(sc *spellCase, k int) ([]string, []string) {
			return two(k, "callback-template", sc.F+"/no-such.tmpl"), nil
		}},
		{"tls-certificate-cache:explicit", true, func(sc *spellCase, k int) ([]string, []string) {
			return two(k, "tls-certificate-cache", sc.F+"/cert.txtar"), nil
		}},
		{"tls-certificate-cache:next-to-the-source", true, func(sc *spellCase, k int) ([]string, []string) {
			return two(k, "tls-certificate-cache", filepath.Dir(sc.alt)+"/c17-cert-cache.txtar"), nil
		}},
		{"tls-certificate-cache:empty", true, func(sc *spellCase, k int) ([]string, []string) {
			return two(k, "tls-certificate-cache", ""), nil
		}},
		{"log:flag", true, func(sc *spellCase, k int) ([]string, []string) { return two(k, "log", sc.F+"/log.json"), nil }},
		{"log:environment", true, func(sc *spellCase, k int) ([]string, []string) {
			return nil, []string{"CURLREVSHELL_LOG=" + sc.F + "/log-env.json"}
		}},
		{"log:relative", true, func(sc *spellCase, k int) ([]string, []string) { return two(k, "log", "c17-log.json"), nil }},
		{"no-timestamps", true, func(sc *spellCase, k int) ([]string, []string) { return boolf(k, "no-timestamps"), nil }},
		{"ipv6-one-liners", true, func(sc *spellCase, k int) ([]string, []string) { return boolf(k, "ipv6-one-liners"), nil }},
		{"icanhazip", false, func(sc *spellCase, k int) ([]string, []string) { return boolf(k, "icanhazip"), nil }},
		{"listen-address:other-loopback", true, func(sc *spellCase, k int) ([]string, []string) {
			return two(k, "listen-address", "127.0.0.3:0"), nil
		}},
		{"listen-address:host-name", true, func(sc *spellCase, k int) ([]string, []string) {
			return two(k, "listen-address", "localhost:0"), nil
		}},
		{"listen-address:given-twice", true, func(sc *spellCase, k int) ([]string, []string) {
			return append(two(k, "listen-address", "127.0.0.1:1"), two(k+1, "listen-address", "127.0.0.1:0")...), nil
		}},
		{"prompt", true, func(sc *spellCase, k int) ([]string, []string) { return two(k, "prompt", "c17 %s> "), nil }},
	}
}

// pickOpts: the option(s) of run `slot` of case i: slot 0 = one option alone,
// slot 1 = a pair, both walking through the whole list by index.
func pickOpts(opts []cfgOpt, i, rot int, pair, ptyOnly bool) []cfgOpt {
	var l []cfgOpt
	for _, o := range opts {
		if o.pty || !ptyOnly {
			l = append(l, o)
		}
	}
	n := len(l)
	a := (i + rot) % n
	if !pair {
		return []cfgOpt{l[a]}
	}
	bi := (a + 1 + (i/n+rot)%(n-1)) % n // all n(n-1)/2 pairs are walked through before any repeats (up to the rotation)
	x, y := l[a], l[bi]
	// two options that set the same flag: the later one wins, which is fine
	// for everything but the listen address the harness has to find
	if strings.HasPrefix(x.name, "listen-address") && strings.HasPrefix(y.name, "listen-address") {
		y = l[(bi+3)%n]
		if strings.HasPrefix(y.name, "listen-address") {
			y = l[0]
		}
	}
	return []cfgOpt{x, y}
}

func optNames(os []cfgOpt) string {
	var n []string
	for _, o := range os {
		n = append(n, o.name)
	}
	sort.Strings(n)
	return strings.Join(n, "+")
}

// ctrlIArgs spells the -ctrl-i flag.
func ctrlIArgs(sc *spellCase, form int) (args []string, formName string) {
	v := sc.value
	switch form % 6 {
	case 0:
		return []string{"-ctrl-i", v}, "-ctrl-i V"
	case 1:
		return []string{"-ctrl-i=" + v}, "-ctrl-i=V"
	case 2:
		return []string{"--ctrl-i", v}, "--ctrl-i V"
	case 3:
		return []string{"--ctrl-i=" + v}, "--ctrl-i=V"
	case 4:
		return []string{"-ctrl-i", v, "--ctrl-i=" + v}, "given twice, same value"
	}
	// another spelling of the same source first, the value last
	return []string{"-ctrl-i=" + sc.alt, "-ctrl-i", v}, "given twice, two spellings of the same source"
}

// ---- the case ------------------------------------------------------------------------

type spellCheck struct {
	tc   *treeCheck
	sc   *spellCase
	bins *binaries
	want []byte // payload (no list function)
	dec  []byte // payload of the decoy source
}

func (b *binaries) runIn(dir, home string, extraEnv []string, path string, args ...string) mon.ProcResult {
	env := []string{"PATH=" + os.Getenv("PATH"), "HOME=" + home, "XDG_CACHE_HOME=" + filepath.Join(home, ".cache"), "LC_ALL=C"}
	if g := os.Getenv("GORACE"); g != "" {
		env = append(env, "GORACE="+g)
	}
	env = append(env, extraEnv...)
	res := mon.Proc{Path: path, Args: args, Env: env, Dir: dir, Stdin: []byte{}, Timeout: 60 * time.Second}.Run()
	if res.TimedOut {
		res = mon.Proc{Path: path, Args: args, Env: env, Dir: dir, Stdin: []byte{}, Timeout: 120 * time.Second}.Run()
	}
	return res
}

func (s *spellCheck) witness(extra map[string]any) map[string]any {
	sc := s.sc
	w := map[string]any{
		"spelling_class": sc.class, "value": sc.value, "working_directory": sc.cwd, "source_kind": sc.kind,
		"the_operating_system_resolves_it_to": sc.alt, "want": head(s.want),
	}
	if sc.decoy != "" {
		w["decoy_source_planted_at"] = sc.decoy
	} else if sc.cleanTo != "" {
		w["lexically_cleaned_path_points_to_nothing"] = sc.cleanTo
	}
	for k, v := range extra {
		w[k] = v
	}
	return w
}

// deviation classifies one observed payload (or failure) that is not the
// reference.  control runs the same thing with the plain absolute path of the
// source (sameCfg) or additionally without the extra options.
func (s *spellCheck) deviation(where, cfg string, got []byte, failed bool, errText string, control func(sameCfg bool) (ok bool)) {
	sc := s.sc
	kind := "payload-differs"
	switch {
	case failed:
		kind = "fails-although-the-source-exists"
	case s.dec != nil && bytes.Equal(got, s.dec):
		kind = "payload-of-the-source-the-cleaned-path-names"
	}
	w := s.witness(map[string]any{"where": where, "got": head(got), "error": errText, "configuration": cfg})
	if control != nil {
		if control(true) {
			s.tc.violate("spelled-source:"+kind+":"+sc.class, fmt.Sprintf("%s: the source given as %q (working directory %q; the operating system resolves it to %q): %s %s - while the same run with the plain absolute path gives the reference payload", where, sc.value, sc.cwd, sc.alt, kind, errText), w)
			return
		}
		if cfg != "" && control(false) {
			s.tc.violate("configuration:"+kind+":"+cfg, fmt.Sprintf("%s: under the options %s: %s %s - while the same source without them gives the reference payload", where, cfg, kind, errText), w)
			return
		}
	} else if kind != "payload-differs" || sc.class != "relative" {
		s.tc.violate("spelled-source:"+kind+":"+sc.class, fmt.Sprintf("%s: the source given as %q (working directory %q; the operating system resolves it to %q): %s %s", where, sc.value, sc.cwd, sc.alt, kind, errText), w)
		return
	}
	// not a matter of spelling or configuration: the tree oracles name the class
	if failed {
		if sc.isDir {
			s.tc.judgeFail(where, sc.v, errText)
		} else {
			s.tc.violate("singlefile-error", where+": single file source fails: "+errText, w)
		}
		return
	}
	if sc.isDir {
		s.tc.judge(where, sc.v, got)
	} else {
		s.tc.violate("singlefile-mismatch", where+": single file source: not the converted content", w)
	}
}

// observe judges the standard output of one run of a binary.
func (s *spellCheck) observe(where, cfg string, res mon.ProcResult, list bool, want []byte, control func(bool) bool) {
	tc := s.tc
	tc.count("binary_runs", 1)
	if res.TimedOut {
		tc.r.Inconclusive("spell: " + where + ": watchdog fired twice")
		return
	}
	if res.Status != 0 {
		s.deviation(where, cfg, nil, true, fmt.Sprintf("(exit status %d signal %q stderr %q)", res.Status, res.Signal, tailStr(res.Stderr)), control)
		return
	}
	body := res.Stdout
	if list {
		var ok bool
		if body, ok = splitList(res.Stdout); !ok {
			tc.violate("binary-listfunc-mismatch", where+": output does not end in the list function generated from the payload before it", s.witness(map[string]any{"stdout": head(res.Stdout)}))
			if body == nil {
				return
			}
		}
	}
	tc.count("payload_comparisons", 1)
	if !bytes.Equal(body, want) {
		s.deviation(where, cfg, body, false, "", control)
	}
}

func okRun(res mon.ProcResult, list bool, want []byte) bool {
	if res.TimedOut || res.Status != 0 {
		return false
	}
	body := res.Stdout
	if list {
		var ok bool
		if body, ok = splitList(res.Stdout); !ok {
			return false
		}
	}
	return bytes.Equal(body, want)
}

var pairsSeen struct {
	sync.Mutex
	m map[string]bool
}

func notePair(tc *treeCheck, kind string, os []cfgOpt) {
	for _, o := range os {
		tc.count("option:"+o.name, 1)
	}
	if len(os) == 1 {
		tc.count(kind+"_under_one_option", 1)
		return
	}
	tc.count(kind+"_under_an_option_pair", 1)
	pairsSeen.Lock()
	if pairsSeen.m == nil {
		pairsSeen.m = map[string]bool{}
	}
	pairsSeen.m[optNames(os)] = true
	pairsSeen.Unlock()
}

func checkSpell(r *mon.Run, i, rot int, bins *binaries, opts []cfgOpt, withPty bool) {
	tb := defaultTable()
	sc, err := buildSpell(r, i, rot, tb)
	if sc != nil {
		defer os.RemoveAll(sc.F)
	}
	if err != nil {
		r.Inconclusive(fmt.Sprintf("spell %d: fixture: %v", i, err))
		return
	}
	tc := &treeCheck{r: r, i: i, tb: tb, v: sc.v, base: sc.F, conv: install(tb), cnt: map[string]int64{}, orig: sc.v.listing(),
		engine: "spell", cprefix: "spell:"}
	defer func() {
		for k, n := range tc.cnt {
			r.Count(k, n)
		}
	}()
	s := &spellCheck{tc: tc, sc: sc, bins: bins}
	// the reference through the spelling, and through the plain path of what was planted
	want, err := refSpelled(tb, sc.full, sc.value)
	plain, err2 := refSpelled(tb, sc.alt, sc.value)
	if err != nil || err2 != nil || !bytes.Equal(want, plain) {
		r.Inconclusive(fmt.Sprintf("spell %d (%s): the fixture is not what it should be: through the spelling %q: %v, through the plain path %q: %v, equal %v", i, sc.class, sc.full, err, sc.alt, err2, bytes.Equal(want, plain)))
		return
	}
	if sc.isDir {
		v2 := *sc.v
		if !modelAgrees(r, "spell", i, tb, &v2) {
			return
		}
	}
	s.want = want
	if sc.decoy != "" {
		d, err := refSpelled(tb, sc.decoy, sc.value)
		if err != nil || bytes.Equal(d, want) {
			r.Inconclusive(fmt.Sprintf("spell %d: decoy unusable (%v)", i, err))
			return
		}
		s.dec = d
		tc.count("cases_with_a_decoy_where_the_cleaned_path_points", 1)
	} else if sc.cleanTo != "" {
		tc.count("cases_with_nothing_where_the_cleaned_path_points", 1)
	}
	r.Eval(1)
	r.Distinct("spell\n" + sc.class + "\n" + sc.value + "\n" + sc.kind + "\n" + sc.v.sig())
	tc.count("cases", 1)
	tc.count("class:"+sc.class, 1)
	tc.count("source:"+sc.kind, 1)
	tc.count("name:"+nameClass(sc.name), 1)
	if disagreeing[sc.class] {
		tc.count("cases_where_cleaning_and_the_operating_system_disagree", 1)
	}

	// (A) the library, through the spelling
	{
		got, err := tc.conv.From(sc.full)
		tc.count("from_calls", 1)
		tc.count("payload_comparisons", 1)
		if err != nil || !bytes.Equal(got, want) {
			et := ""
			if err != nil {
				et = "(" + err.Error() + ")"
			}
			s.deviation("Converter.From(spelled path)", "", got, err != nil, et, func(bool) bool {
				g, err := install(tb).From(sc.alt)
				return err == nil && bytes.Equal(g, want)
			})
		}
		got, err = tc.conv.From(sc.full, sc.alt)
		tc.count("from_calls", 1)
		tc.count("payload_comparisons", 1)
		if err != nil || !bytes.Equal(got, append(bytes.Clone(want), want...)) {
			tc.violate("multisource-mismatch", fmt.Sprintf("Converter.From(spelled path, plain path of the same source) is not the payload twice (%v)", err), s.witness(map[string]any{"got": head(got)}))
		}
	}
	bins.build(r)
	if bins.err != "" {
		r.Inconclusive(bins.err)
		return
	}
	// (B) curlrevshell -print-ctrl-i under the configuration matrix
	form := i + rot
	for slot := 0; slot < 2; slot++ {
		os_ := pickOpts(opts, i, rot, slot == 1, false)
		var oargs, oenv []string
		for j, o := range os_ {
			a, e := o.mk(sc, i+j+slot)
			oargs, oenv = append(oargs, a...), append(oenv, e...)
		}
		ci, formName := ctrlIArgs(sc, form+slot*3)
		pflag := []string{"-print-ctrl-i", "--print-ctrl-i", "-print-ctrl-i=true"}[(i+slot)%3]
		var args []string
		switch (i + slot) % 3 {
		case 0:
			args = append(append(append(args, pflag), ci...), oargs...)
		case 1:
			args = append(append(append(args, oargs...), ci...), pflag)
		default:
			args = append(append(append(args, ci...), pflag), oargs...)
		}
		cfg := optNames(os_)
		where := fmt.Sprintf("curlrevshell -print-ctrl-i, flag spelled %q, options %s", formName, cfg)
		res := bins.runIn(sc.cwd, sc.home, oenv, bins.crs, args...)
		notePair(tc, "print_runs", os_)
		tc.count("flag_form:"+formName, 1)
		s.observe(where, cfg, res, true, want, func(same bool) bool {
			a := []string{"-print-ctrl-i", "-ctrl-i", sc.alt}
			var e []string
			if same {
				a, e = append(a, oargs...), oenv
			}
			return okRun(bins.runIn(sc.cwd, sc.home, e, bins.crs, a...), true, want)
		})
	}

	// (C) the shellfuncsfile tool
	dd := func(l ...string) []string { // "--" where needed, and now and then where not
		for _, x := range l {
			if strings.HasPrefix(x, "-") {
				return append([]string{"--"}, l...)
			}
		}
		if i%4 == 3 {
			return append([]string{"--"}, l...)
		}
		return l
	}
	nolist := [][]string{{"-no-list-function"}, {"--no-list-function"}, {"-no-list-function=true"}, {"--no-list-function=1"}, {"-no-list-function", "-no-list-function"}}[(i+rot)%5]
	withlist := [][]string{{}, {"-no-list-function=false"}, {"--no-list-function=0"}}[(i+rot)%3]
	ctl := func(list bool) func(bool) bool {
		return func(bool) bool {
			a := []string{"-no-list-function"}
			if list {
				a = nil
			}
			return okRun(bins.runIn(sc.cwd, sc.home, nil, bins.tool, append(a, sc.alt)...), list, want)
		}
	}
	s.observe("shellfuncsfile -no-list-function <spelled source>", "", bins.runIn(sc.cwd, sc.home, nil, bins.tool, append(bytes2(nolist), dd(sc.value)...)...), false, want, ctl(false))
	s.observe("shellfuncsfile <spelled source>", "", bins.runIn(sc.cwd, sc.home, nil, bins.tool, append(bytes2(withlist), dd(sc.value)...)...), true, want, ctl(true))
	tc.count("tool_runs", 2)
	{
		xb := nlTerm(bytes.Clone(sc.extraB))
		var srcs []string
		var w2 []byte
		switch i % 3 {
		case 0:
			srcs, w2 = []string{sc.value, sc.extra}, append(bytes.Clone(want), xb...)
		case 1:
			srcs, w2 = []string{sc.extra, sc.value}, append(bytes.Clone(xb), want...)
		default:
			srcs, w2 = []string{sc.value, sc.extra, sc.value}, append(append(bytes.Clone(want), xb...), want...)
		}
		res := bins.runIn(sc.cwd, sc.home, nil, bins.tool, append(bytes2(nolist), dd(srcs...)...)...)
		tc.count("binary_runs", 1)
		tc.count("tool_runs_with_several_sources", 1)
		switch {
		case res.TimedOut:
			r.Inconclusive("spell: shellfuncsfile <several sources>: watchdog fired twice")
		case res.Status != 0:
			s.deviation("shellfuncsfile <several sources>", "", nil, true, fmt.Sprintf("(exit status %d stderr %q)", res.Status, tailStr(res.Stderr)), ctl(false))
		case !bytes.Equal(res.Stdout, w2):
			tc.count("payload_comparisons", 1)
			// the sources in another order, or once instead of twice?
			key, what := "multisource-mismatch", "is not the concatenation of the sources' payloads"
			alts := [][]byte{append(bytes.Clone(xb), want...), append(bytes.Clone(want), xb...), append(append(bytes.Clone(xb), want...), want...), append(append(bytes.Clone(want), want...), xb...)}
			for _, a := range alts {
				if bytes.Equal(res.Stdout, a) {
					key, what = "multisource-order", "concatenates the sources in another order than given (or a source named twice only once)"
				}
			}
			if ctl(false)(true) && (bytes.Contains(res.Stdout, s.dec) && s.dec != nil) {
				key, what = "spelled-source:payload-of-the-source-the-cleaned-path-names:"+sc.class, "contains the payload of the source the cleaned path names"
			}
			tc.violate(key, fmt.Sprintf("shellfuncsfile %q: the output %s", srcs, what), s.witness(map[string]any{"sources": srcs, "got": head(res.Stdout), "want_concatenation": head(w2)}))
		default:
			tc.count("payload_comparisons", 1)
		}
	}

	// (D) the running program: what a connected shell receives on Tab / Ctrl+I
	if withPty {
		s.ptyCase(opts, rot)
	}
	if i < 60 {
		r.Sample("spell:"+sc.class, map[string]any{"index": i, "value": sc.value, "working_directory": strings.TrimPrefix(sc.cwd, sc.F), "source": strings.TrimPrefix(sc.alt, sc.F),
			"decoy": strings.TrimPrefix(sc.decoy, sc.F), "kind": sc.kind, "entries": tc.orig})
	}
}

func bytes2(l []string) []string { return append([]string{}, l...) }

var (
	insertedRe = regexp.MustCompile(`Inserted (\d+) bytes from|Error working out what to insert: ([^\r\n]*)|Lazily refusing to insert 0 bytes`)
	wouldRe    = regexp.MustCompile(`Would have sent the following (\d+) bytes|Error working out what to insert: ([^\r\n]*)`)
	shaRe      = regexp.MustCompile(`SHA256: ([0-9a-f]{64})`)
)

// ptyCase starts the real program with -ctrl-i VALUE in the case's working
// directory, connects a fake shell, presses Tab and compares the bytes the
// shell receives with the reference payload followed by the list function
// generated from it; then Ctrl+J (the number of bytes it announces).
func (s *spellCheck) ptyCase(opts []cfgOpt, rot int) {
	tc, sc, r := s.tc, s.sc, s.tc.r
	i := sc.i
	inc := func(what string) {
		r.Logf("inconclusive: %s", what)
		r.Inconclusive(what)
	}
	os_ := pickOpts(opts, i/3, rot, (i/3)%2 == 1, true)
	var oargs, oenv []string
	listen := false
	for j, o := range os_ {
		a, e := o.mk(sc, i+j)
		oargs, oenv = append(oargs, a...), append(oenv, e...)
		listen = listen || strings.HasPrefix(o.name, "listen-address")
	}
	ci, formName := ctrlIArgs(sc, i/3+rot+1)
	var args []string
	if !listen {
		args = append(args, "-listen-address", "127.0.0.1:0")
	}
	if i%2 == 0 {
		args = append(append(args, ci...), oargs...)
	} else {
		args = append(append(args, oargs...), ci...)
	}
	cfg := optNames(os_)
	where := fmt.Sprintf("curlrevshell on a terminal, flag spelled %q, options %s", formName, cfg)
	lf, err := shellfuncsfile.GenFuncList(string(s.want))
	if err != nil {
		inc("spell: GenFuncList: " + err.Error())
		return
	}
	want := append(append(bytes.Clone(s.want), '\n'), lf...)

	p, err := ptyx.Start(ptyx.Opts{Path: s.bins.crs, Args: args, Env: append(crs.Env(sc.home), oenv...), Dir: sc.cwd})
	if err != nil {
		inc("spell: " + where + ": " + err.Error())
		return
	}
	defer p.Close()
	loc, ok := p.WaitFor(regexp.MustCompile(`Listening on (\S+:\d+)`), 0, crs.Bound)
	if !ok {
		inc(fmt.Sprintf("spell %d: %s: no 'Listening on' line; terminal shows %q", i, where, tailStr([]byte(p.Clean()))))
		return
	}
	addr := p.Clean()[loc[2]:loc[3]]
	sh, err := crs.OpenIO(addr)
	if err != nil {
		inc(fmt.Sprintf("spell %d: %s: connecting a shell: %v", i, where, err))
		return
	}
	defer sh.Close()
	// (offsets into the de-escaped terminal text are taken from matches, never
	// from its current length: the prompt at its end is erased and redrawn)
	rdy, ok := p.WaitFor(regexp.MustCompile(`Shell is ready`), 0, crs.Bound)
	if !ok {
		inc(fmt.Sprintf("spell %d: %s: the shell was not announced; terminal shows %q", i, where, tailStr([]byte(p.Clean()))))
		return
	}
	notePair(tc, "terminal_sessions", os_)
	tc.count("terminal_sessions", 1)
	tc.count("terminal_flag_form:"+formName, 1)
	if disagreeing[sc.class] {
		tc.count("terminal_sessions_where_cleaning_and_the_operating_system_disagree", 1)
	}
	from := rdy[1]
	p.Write([]byte{'\t'})
	loc, ok = p.WaitFor(insertedRe, from, crs.Bound)
	if !ok {
		inc(fmt.Sprintf("spell %d: %s: no answer to Tab; terminal shows %q", i, where, tailStr([]byte(p.Clean()))))
		return
	}
	tc.count("tab_insertions", 1)
	clean := p.Clean()
	w := func(extra map[string]any) map[string]any {
		extra["where"], extra["configuration"], extra["arguments"] = where, cfg, args
		return s.witness(extra)
	}
	if loc[2] < 0 {
		msg := clean[loc[0]:loc[1]]
		tc.violate("tab-insert:fails-although-the-source-exists:"+sc.class, fmt.Sprintf("%s: Tab with the source given as %q (the operating system resolves it to %q): %s", where, sc.value, sc.alt, msg), w(map[string]any{"terminal": msg}))
	} else {
		n, _ := strconv.Atoi(clean[loc[2]:loc[3]])
		if err := sh.In.Header(crs.Bound); err != nil {
			inc(fmt.Sprintf("spell %d: %s: response header of the shell's stream: %v", i, where, err))
			return
		}
		got := make([]byte, n)
		sh.In.C.SetReadDeadline(time.Now().Add(crs.Bound))
		m, err := io.ReadFull(sh.In.Resp.Body, got)
		sh.In.C.SetReadDeadline(time.Time{})
		if err != nil {
			inc(fmt.Sprintf("spell %d: %s: the terminal says %d bytes were inserted, the shell received %d within the bound (%v)", i, where, n, m, err))
			return
		}
		tc.count("payload_comparisons", 1)
		tc.count("tab_payloads_compared", 1)
		if !bytes.Equal(got, want) {
			kind := "payload-differs"
			if s.dec != nil {
				if b, ok := splitList(got); ok && bytes.Equal(b, s.dec) {
					kind = "payload-of-the-source-the-cleaned-path-names"
				}
			}
			if kind == "payload-differs" && sc.isDir {
				if b, ok := splitList(got); ok {
					tc.judge(where+" (Tab)", sc.v, b)
				}
			}
			tc.violate("tab-insert:"+kind+":"+sc.class, fmt.Sprintf("%s: Tab with the source given as %q (working directory %q; the operating system resolves it to %q): the shell receives %d bytes that are not the payload of that source: %s", where, sc.value, sc.cwd, sc.alt, n, kind), w(map[string]any{"got": head(got), "want_with_list_function": head(want)}))
		}
	}
	// Ctrl+J
	from = loc[1]
	p.Write([]byte{'\n'})
	loc, ok = p.WaitFor(wouldRe, from, crs.Bound)
	if !ok {
		inc(fmt.Sprintf("spell %d: %s: no answer to Ctrl+J; terminal shows %q", i, where, tailStr([]byte(p.Clean()))))
		return
	}
	tc.count("ctrl_j_previews", 1)
	clean = p.Clean()
	if loc[2] < 0 {
		msg := clean[loc[0]:loc[1]]
		tc.violate("ctrl-j:fails-although-the-source-exists:"+sc.class, fmt.Sprintf("%s: Ctrl+J with the source given as %q: %s", where, sc.value, msg), w(map[string]any{"terminal": msg}))
	} else if n, _ := strconv.Atoi(clean[loc[2]:loc[3]]); n != len(want) {
		kind := "payload-differs"
		if s.dec != nil {
			if lf2, err := shellfuncsfile.GenFuncList(string(s.dec)); err == nil && n == len(s.dec)+1+len(lf2) {
				kind = "payload-of-the-source-the-cleaned-path-names"
			}
		}
		tc.violate("ctrl-j:"+kind+":"+sc.class, fmt.Sprintf("%s: Ctrl+J with the source given as %q announces %d bytes, the payload of the source has %d", where, sc.value, n, len(want)), w(map[string]any{}))
	}
	// leave
	p.Write([]byte{4})
	if _, _, ok := p.WaitExit(crs.Bound); !ok {
		tc.count("terminal_sessions_killed_at_the_end", 1)
	}
}

// spellFloors: every dimension of the engine must have been exercised.
func spellFloors(r *mon.Run, ns, npty int, opts []cfgOpt) {
	fl := func(x int) int64 { return int64(x) }
	pairsSeen.Lock()
	r.Count("spell:distinct_option_pairs", int64(len(pairsSeen.m)))
	pairsSeen.Unlock()
	nc := len(spellClasses)
	r.Floor("spell:cases", fl(ns))
	for _, c := range spellClasses {
		r.Floor("spell:class:"+c, fl(ns/nc))
	}
	r.Floor("spell:cases_where_cleaning_and_the_operating_system_disagree", fl(ns/nc*4))
	r.Floor("spell:cases_with_a_decoy_where_the_cleaned_path_points", fl(ns/nc*2))
	r.Floor("spell:cases_with_nothing_where_the_cleaned_path_points", fl(ns/nc/2))
	r.Floor("spell:source:dir", fl(ns/3))
	r.Floor("spell:source:file-matched", fl(ns/10))
	r.Floor("spell:source:file-unmatched", fl(ns/20))
	for _, n := range []string{"leading-dash", "percent", "equals", "space", "leading-dot", "plain"} {
		r.Floor("spell:name:"+n, fl(ns/40))
	}
	r.Floor("spell:from_calls", fl(ns*2))
	r.Floor("spell:binary_runs", fl(ns*5))
	r.Floor("spell:payload_comparisons", fl(ns*7))
	r.Floor("spell:print_runs_under_one_option", fl(ns))
	r.Floor("spell:print_runs_under_an_option_pair", fl(ns))
	r.Floor("spell:tool_runs", fl(ns*2))
	r.Floor("spell:tool_runs_with_several_sources", fl(ns))
	for _, f := range []string{"-ctrl-i V", "-ctrl-i=V", "--ctrl-i V", "--ctrl-i=V", "given twice, same value", "given twice, two spellings of the same source"} {
		r.Floor("spell:flag_form:"+f, fl(ns/6))
	}
	for _, o := range opts {
		r.Floor("spell:option:"+o.name, fl(ns/len(opts)))
	}
	r.Floor("spell:distinct_option_pairs", fl(min(ns/2, 120)))
	r.Floor("spell:terminal_sessions", fl(npty))
	r.Floor("spell:terminal_sessions_under_one_option", fl(npty/3))
	r.Floor("spell:terminal_sessions_under_an_option_pair", fl(npty/3))
	r.Floor("spell:terminal_sessions_where_cleaning_and_the_operating_system_disagree", fl(npty/5))
	r.Floor("spell:tab_insertions", fl(npty))
	r.Floor("spell:tab_payloads_compared", fl(npty))
	r.Floor("spell:ctrl_j_previews", fl(npty))
}

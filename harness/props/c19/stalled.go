package c19

import (
	"fmt"
	"os"
	"path/filepath"
	"regexp"
	"strings"
	"time"

	"github.com/magisterquis/curlrevshell/verifharness/mon"
	"github.com/magisterquis/curlrevshell/verifharness/mon/crs"
)

// runStalled: the operator's own log lines during a mute, and a terminal
// that does not keep up.  The program is started with -ctrl-i <file>, so
// Ctrl+J prints a (large) log message locally.
//
// Phase "preview": Ctrl+J is typed while shell output is muted.  The message
// is a log line, not shell output: header and contents must be displayed.
//
// Phase "stall": during a mute the harness stops draining the pty and types
// Ctrl+J; the program's write of the message blocks with the terminal's
// write lock held.  A shell token W is sent ~1.3 s after the last one, the
// calm timer expires behind the blocked write, then the harness drains
// again.  W arrived within the pause interval, so the mute must go on: the
// ordinary rule "a suppressed token keeps the mute on for 2 s after it was
// sent" (judge (a)) decides, on send and observation times only.
func runStalled(r *mon.Run, bin string, idx int) {
	rng := r.Rng("stalled", idx)
	home := filepath.Join(r.Work, fmt.Sprintf("st%d", idx))
	os.MkdirAll(home, 0o755)
	src := filepath.Join(home, "preview.txt")
	nlines := 8000 + rng.IntN(16000) // 0.6-2 MB: far more than a pty buffers
	var sb strings.Builder
	for i := 0; i < nlines; i++ {
		fmt.Fprintf(&sb, "PV%d-%06d %s\n", idx, i, strings.Repeat("preview-", 8))
	}
	lastLine := fmt.Sprintf("PV%d-%06d ", idx, nlines-1)
	if err := os.WriteFile(src, []byte(sb.String()), 0o644); err != nil {
		r.Inconclusive(err.Error())
		return
	}
	s, err := crs.Start(bin, home, "-listen-address", "127.0.0.1:0", "-tls-certificate-cache", "", "-ctrl-i", src)
	if err != nil {
		r.Inconclusive("binary did not start: " + err.Error())
		return
	}
	defer s.Close()
	z := &sess{r: r, idx: 3000 + idx, s: s, t0: time.Now(), eng: "stalled", eidx: idx}
	io, err := crs.OpenIO(s.Addr)
	if err != nil {
		r.Inconclusive(err.Error())
		return
	}
	defer io.Close()
	z.in, z.out = io.In, io.Out
	if _, ok := s.Wait(`Shell is ready`, 0, crs.Bound); !ok {
		r.Inconclusive("fake shell did not attach")
		return
	}
	lastSent := func() time.Time { return z.toks[len(z.toks)-1].sent }

	// control: un-muted Ctrl+J shows header and contents
	from := s.P.CleanLen()
	s.Type("\n")
	if _, ok := s.Wait(regexp.QuoteMeta(lastLine), from, ProgressBound); !ok {
		r.Inconclusive("Ctrl+J does not print the -ctrl-i source even when nothing is muted")
		return
	}

	phases := []string{"preview", "stall"}
	if idx%2 == 1 {
		phases = []string{"stall", "preview"}
	}
	for _, ph := range phases {
		if z.bad {
			break
		}
		z.ev("phase %s", ph)
		z.send()
		time.Sleep(50 * time.Millisecond)
		z.ctrlO()
		if z.bad {
			break
		}
		z.send() // suppressed; the calm interval starts here
		t0 := lastSent()
		switch ph {
		case "preview":
			time.Sleep(time.Duration(100+rng.IntN(600)) * time.Millisecond)
			from := s.P.CleanLen()
			s.Type("\n") // Ctrl+J
			z.ev("Ctrl+J typed while muted")
			hdr, ok := s.Wait(`Would have sent the following \d+ bytes`, from, ProgressBound)
			if !ok {
				z.viol("log-line-suppressed-while-muted", "Ctrl+J typed while muted: the 'Would have sent' message was not displayed")
				z.bad = true
				break
			}
			if _, ok := s.Wait(regexp.QuoteMeta(lastLine), hdr[0], ProgressBound); !ok {
				z.viol("log-line-suppressed-while-muted", fmt.Sprintf("Ctrl+J typed while muted: the header was displayed but the contents of the message (%d lines) were not", nlines))
				z.bad = true
				break
			}
			r.Count("previews_displayed_while_muted", 1)
		case "stall":
			time.Sleep(time.Duration(100+rng.IntN(300)) * time.Millisecond)
			s.P.PauseReading()
			s.Type("\n") // Ctrl+J: the program starts writing the message and blocks
			z.ev("terminal stalled, Ctrl+J typed")
			sleepUntil(t0.Add(time.Duration(1100+rng.IntN(500)) * time.Millisecond))
			z.send() // W: within the pause interval after the previous token
			sleepUntil(t0.Add(Pause + time.Duration(300+rng.IntN(700))*time.Millisecond))
			s.P.ResumeReading()
			z.ev("terminal drains again")
			r.Count("stalls", 1)
		}
		z.awaitUnmute(lastSent())
		if z.bad {
			break
		}
		fin := z.send()
		if _, ok := s.Wait(regexp.QuoteMeta(fin.name), 0, ProgressBound); !ok {
			z.viol("output-after-unmute-not-displayed", fmt.Sprintf("token %s sent after the un-muting announcement was not displayed", fin.name))
			z.bad = true
		}
	}
	if !z.bad {
		z.judge(true)
	}
	st, sig, ok := s.Quit()
	if !ok || st != 0 {
		r.Inconclusive(fmt.Sprintf("binary did not exit cleanly (status %d %s %v)", st, sig, ok))
	}
	r.Eval(1)
	r.Count("stalled_sessions", 1)
	r.Count("tokens_sent", int64(len(z.toks)))
	r.Distinct(fmt.Sprintf("stalled|%v|%d", phases, nlines))
	if idx < 1 {
		r.Sample("stalled", map[string]any{"phases": phases, "preview_lines": nlines, "timeline": z.events})
	}
}

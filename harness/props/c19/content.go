package c19

import (
	"bytes"
	"fmt"
	"math/rand/v2"
	"regexp"
	"strings"
	"unicode/utf8"
)

// The content dimension: WHAT the shell sends once the mute is over (and, as
// a control, before the first mute and in sessions without any Ctrl+O).
//
// The numbered tokens are printable ASCII; "shell output arriving afterwards is
// displayed again" and "without Ctrl+O nothing is ever suppressed" are promised
// for whatever a shell prints.  So right after the un-muting announcement has
// been read, the fake shell sends a piece of content whose FIRST bytes come
// from one of these classes, followed by the ordinary ASCII token that serves
// as its sentinel:
//
//	continuation-bytes  lone UTF-8 continuation bytes (0x80-0xBF): binary data,
//	                    legacy character sets
//	non-utf8            bytes that never occur in UTF-8 (0xC0, 0xC1, 0xF5-0xFF)
//	                    or a lead byte without its continuation
//	latin1              Latin-1 text (first byte 0xA0-0xFF)
//	nul-and-controls    NUL and control bytes other than ESC and CR
//	utf8-multibyte      well-formed 2/3/4-byte characters
//	ascii               plain text
//
// and, independently ("carry"), the tail of a multibyte character whose first
// byte(s) went out with every chunk sent during the mute, so that the mute
// swallowed the head and the first bytes displayed again are the rest of that
// character.  What follows the first bytes is a mixture of all classes.
//
// The terminal is read as in the C03 check (props/c03/ptybytes.go): ptyx's
// clean text is the byte stream the line editor wrote with the prompt taken
// away again; LF is written as CR LF and read back as LF; the content never
// contains ESC (ptyx would take what follows for an escape sequence) nor CR.
// Only the region between the un-muting announcement line (or, for the
// controls, the end of the previous token) and the sentinel token is compared,
// byte for byte; complete status lines that fall into it are taken out.

var contentKinds = []string{"continuation-bytes", "non-utf8", "latin1", "nul-and-controls", "utf8-multibyte", "ascii"}

// places a piece of content is sent at
const (
	whereAfterUnmute = "after-unmute"      // first thing sent after the un-muting announcement was read
	whereLater       = "unmuted-later"     // un-muted, after a mute cycle, not the first thing
	whereBeforeMute  = "before-first-mute" // session with Ctrl+O, before the first one
	whereNoCtrlO     = "no-ctrl-o"         // session without any Ctrl+O
)

type content struct {
	where      string
	kind       string
	carry      bool   // begins with the tail of a multibyte character
	data       []byte // everything sent between the anchor and the sentinel
	chunks     int    // TLS writes / HTTP chunks it went out in
	anchorTok  *token // region starts after this (un-muted) token ...
	anchorMute int    // ... or after the un-muting announcement of this mute (-1: none)
	sentinel   *token // region ends where this token starts
	notice     bool   // a status line was requested in the middle of it
}

// carried is a multibyte character cut in two.
type carried struct {
	r          rune
	head, tail []byte
}

func contentRune(rng *rand.Rand, l int) rune {
	switch l {
	case 2:
		return rune(0x80 + rng.IntN(0x800-0x80))
	case 3:
		for {
			r := rune(0x800 + rng.IntN(0x10000-0x800))
			if r < 0xD800 || r > 0xDFFF {
				return r
			}
		}
	default:
		return rune(0x10000 + rng.IntN(0x110000-0x10000))
	}
}

func newCarried(rng *rand.Rand) carried {
	r := contentRune(rng, 2+rng.IntN(3))
	b := utf8.AppendRune(nil, r)
	k := 1 + rng.IntN(len(b)-1)
	return carried{r: r, head: b[:k], tail: b[k:]}
}

// any byte but ESC and CR
func contentAnyByte(rng *rand.Rand) byte {
	for {
		b := byte(rng.IntN(256))
		if b != 0x1b && b != '\r' {
			return b
		}
	}
}

// a control byte (NUL included, DEL included) other than ESC and CR
func contentCtlByte(rng *rand.Rand) byte {
	for {
		b := byte(rng.IntN(0x21))
		if b == 0x20 {
			b = 0x7f
		}
		if b != 0x1b && b != '\r' {
			return b
		}
	}
}

func contentNonUTF8Byte(rng *rand.Rand) byte {
	if rng.IntN(3) == 0 {
		return []byte{0xC0, 0xC1}[rng.IntN(2)]
	}
	return byte(0xF5 + rng.IntN(0x100-0xF5))
}

// lower-case words only: nothing here can look like a token (T<n>_<n>;), an
// announcement or a status line
var contentWords = []string{"drwxr-xr-x", "root", "wheel", "4096", "etc", "passwd", "uid=0(root)", "gid=0(wheel)", "total", "lo0:", "inet", "127.0.0.1", "netmask", "0xff000000", "cat:", "no", "such", "file", "or", "directory", "$", "#", "|", "&&", "--help", "~/.ssh", "a.out"}

// Latin-1 words (ISO 8859-1 bytes, not UTF-8)
var contentLatin1 = []string{"\xa39.99", "caf\xe9", "\xbfqu\xe9?", "na\xefve", "\xc6r\xf8sk\xf8bing", "\xbd", "\xb5m", "\xb15\xb0", "\xa73", "\xa1hola!", "stra\xdfe", "\xfcber", "\xa9", "\xabgr\xfc\xdfe\xbb", "\xe0", "\xd1and\xfa", "\xac\xac", "\xb7\xb7\xb7", "\xa0"}

func contentASCII(rng *rand.Rand, n int) []byte {
	var b []byte
	for i := 0; i < n; i++ {
		if i > 0 {
			b = append(b, ' ')
		}
		b = append(b, contentWords[rng.IntN(len(contentWords))]...)
	}
	return b
}

// contentLead makes the first bytes of a piece of content of the given kind.
func contentLead(rng *rand.Rand, kind int) []byte {
	var b []byte
	switch contentKinds[kind] {
	case "continuation-bytes":
		for n := 1 + rng.IntN(4); n > 0; n-- {
			b = append(b, byte(0x80+rng.IntN(0x40)))
		}
	case "non-utf8":
		if rng.IntN(3) == 0 { // a lead byte whose continuation never comes
			c := utf8.AppendRune(nil, contentRune(rng, 2+rng.IntN(3)))
			b = append(b, c[0])
			b = append(b, contentASCII(rng, 1)...)
		} else {
			for n := 1 + rng.IntN(3); n > 0; n-- {
				b = append(b, contentNonUTF8Byte(rng))
			}
		}
	case "latin1":
		b = append(b, byte(0xA0+rng.IntN(0x60))) // any Latin-1 letter or sign
		for n := 1 + rng.IntN(4); n > 0; n-- {
			b = append(b, contentLatin1[rng.IntN(len(contentLatin1))]...)
			b = append(b, ' ')
		}
	case "nul-and-controls":
		if rng.IntN(2) == 0 {
			b = append(b, 0)
		}
		for n := 1 + rng.IntN(4); n > 0; n-- {
			b = append(b, contentCtlByte(rng))
		}
	case "utf8-multibyte":
		for n := 1 + rng.IntN(3); n > 0; n-- {
			b = utf8.AppendRune(b, contentRune(rng, 2+rng.IntN(3)))
		}
	default:
		b = contentASCII(rng, 1+rng.IntN(3))
	}
	return b
}

// contentBody is a mixture of all classes, about size bytes long.
func contentBody(rng *rand.Rand, size int) []byte {
	var b []byte
	for len(b) < size {
		switch x := rng.IntN(100); {
		case x < 25:
			b = append(b, contentASCII(rng, 1+rng.IntN(4))...)
		case x < 35:
			b = append(b, '\n')
		case x < 50:
			for n := 1 + rng.IntN(4); n > 0; n-- {
				b = utf8.AppendRune(b, contentRune(rng, 2+rng.IntN(3)))
			}
		case x < 60:
			for n := 1 + rng.IntN(3); n > 0; n-- {
				b = append(b, contentLatin1[rng.IntN(len(contentLatin1))]...)
			}
		case x < 70:
			for n := 1 + rng.IntN(4); n > 0; n-- {
				b = append(b, byte(0x80+rng.IntN(0x40)))
			}
		case x < 78:
			b = append(b, contentNonUTF8Byte(rng))
		case x < 86:
			c := utf8.AppendRune(nil, contentRune(rng, 2+rng.IntN(3)))
			b = append(b, c[:1+rng.IntN(len(c)-1)]...) // unfinished character
			b = append(b, contentASCII(rng, 1)...)
		case x < 93:
			for n := 1 + rng.IntN(3); n > 0; n-- {
				b = append(b, contentCtlByte(rng))
			}
		default:
			for n := 1 + rng.IntN(8); n > 0; n-- {
				b = append(b, contentAnyByte(rng))
			}
		}
	}
	return b
}

// sendContent sends one piece of content through the fake shell's output
// stream.  The caller sends the sentinel (an ordinary token) next.
//
// Un-muted (controls): with carry, the head of a multibyte character goes out
// as a chunk of its own and the rest of the character starts the next chunk.
// After a mute: pre is the tail of the character whose head went out with the
// chunks sent during the mute (nil: none).  With notice, a status line is
// requested, and awaited, between two chunks.
func (z *sess) sendContent(rng *rand.Rand, where string, kind int, carry bool, pre []byte, notice bool) {
	if z.bad {
		return
	}
	cn := &content{where: where, kind: contentKinds[kind], carry: carry || pre != nil, anchorMute: -1, notice: notice}
	switch {
	case z.fresh && z.muted() == nil && len(z.mutes) > 0:
		cn.anchorMute = len(z.mutes) - 1
	case len(z.toks) > 0 && z.toks[len(z.toks)-1].afterM < 0 && z.toks[len(z.toks)-1].suffix == "":
		cn.anchorTok = z.toks[len(z.toks)-1]
	default:
		return // nowhere to start the region from
	}
	if where == whereAfterUnmute && cn.anchorMute < 0 {
		z.r.Inconclusive("content meant to be the first output after an un-muting announcement has no such announcement before it")
		z.bad = true
		return
	}
	var parts [][]byte
	if pre == nil && carry {
		ch := newCarried(rng)
		parts = append(parts, ch.head)
		pre = ch.tail
	}
	size := 8 + rng.IntN(120)
	if rng.IntN(6) == 0 {
		size = 2100 + rng.IntN(3000) // more than the program reads at once
	}
	first := append(append([]byte(nil), pre...), contentLead(rng, kind)...)
	rest := contentBody(rng, size)
	if notice {
		rest = append(rest, " etc"...) // the status line follows a letter
	}
	// the first chunk starts with the first bytes; the rest is cut anywhere
	cut := rng.IntN(len(rest) + 1)
	if rng.IntN(3) == 0 {
		cut = len(rest)
	}
	parts = append(parts, append(first, rest[:cut]...))
	if cut < len(rest) {
		parts = append(parts, rest[cut:])
	}
	if notice && len(parts) < 2 {
		parts = append(parts, contentBody(rng, 20))
	}
	z.fresh = false
	for i, p := range parts {
		if notice && i == len(parts)-1 {
			z.statusLine()
		}
		if err := z.out.Send(string(p)); err != nil {
			z.r.Inconclusive("fake shell cannot send: " + err.Error())
			z.bad = true
			return
		}
		cn.data = append(cn.data, p...)
		cn.chunks++
	}
	z.ev("content sent (%s, %s, carry %v): %d bytes in %d chunks, starting %+q", where, cn.kind, cn.carry, len(cn.data), cn.chunks, cn.data[:min(len(cn.data), 6)])
	z.contents = append(z.contents, cn)
	z.pending = cn
}

var noticeLineRe = regexp.MustCompile(`(?:\d\d:\d\d:\d\d(?:\.\d+)? )?\[[^\[\]\n]*\] File requested: /status-[0-9-]+\r?\n`)

func quoteAround(b []byte, at, around int) string {
	lo, hi := max(0, at-around), min(len(b), at+around)
	return fmt.Sprintf("%+q", b[lo:hi])
}

// judgeContents compares, byte for byte, what the terminal shows between each
// piece of content's anchor and its sentinel with what was sent there.  It
// runs after judge has located the tokens.
func (z *sess) judgeContents(clean string, withCtrlO bool) {
	for _, cn := range z.contents {
		if cn.sentinel == nil || !cn.sentinel.shown {
			continue // the token rules have spoken already
		}
		start := 0
		if cn.anchorMute >= 0 {
			m := z.mutes[cn.anchorMute]
			nl := strings.IndexByte(clean[m.uPos:], '\n')
			if nl < 0 {
				z.r.Inconclusive("the un-muting announcement line has no end")
				continue
			}
			start = m.uPos + nl + 1
		} else {
			if !cn.anchorTok.shown {
				continue
			}
			start = cn.anchorTok.posAt + len(cn.anchorTok.name)
		}
		end := cn.sentinel.posAt
		if end < start {
			z.r.Inconclusive(fmt.Sprintf("cannot delimit the region of a piece of content: sentinel %s at %d, region start %d", cn.sentinel.name, end, start))
			continue
		}
		region := []byte(clean[start:end])
		stripped := noticeLineRe.ReplaceAll(region, nil)
		hadNotice := len(stripped) != len(region)
		shown := bytes.ReplaceAll(stripped, []byte("\r\n"), []byte("\n"))
		want := cn.data
		late := 0
		if cn.anchorMute >= 0 && !bytes.Equal(shown, want) && bytes.HasSuffix(shown, want) {
			// chunks sent during the mute that reached the terminal only after the mute had
			// ended are displayed, legitimately, after the announcement (whether they were
			// early enough for that is the business of the timing rules): whole chunks, in order
			p := shown[:len(shown)-len(want)]
			for _, t := range z.toks {
				if t.afterM == cn.anchorMute && bytes.HasPrefix(p, []byte(t.name+t.suffix)) {
					p = p[len(t.name)+len(t.suffix):]
					late++
				}
			}
			if len(p) == 0 {
				shown = shown[len(shown)-len(want):]
				z.r.Count("content_after_chunks_of_the_mute_displayed_late", int64(late))
			}
		}
		if !bytes.Equal(shown, want) {
			div := 0
			for div < len(shown) && div < len(want) && shown[div] == want[div] {
				div++
			}
			key := "output-after-unmute-altered"
			what := "shell output sent after the un-muting announcement had been read"
			switch cn.where {
			case whereNoCtrlO:
				key, what = "output-altered-without-ctrl-o", "shell output in a session without any Ctrl+O"
			case whereBeforeMute:
				key, what = "output-while-unmuted-altered", "shell output sent before the first Ctrl+O"
			case whereLater:
				key, what = "output-while-unmuted-altered", "shell output sent while un-muted (after a mute cycle was over and other output had been displayed again)"
			}
			missing := len(want) - len(shown)
			z.viol(key, fmt.Sprintf("%s is not on the terminal as sent (content class %s%s, %d bytes in %d chunks followed by sentinel token %s): %d bytes displayed between %s and the sentinel, %d sent (%+d); first difference at offset %d: displayed %s, sent %s",
				what, cn.kind, map[bool]string{true: ", beginning with the tail of a multibyte character", false: ""}[cn.carry], len(want), cn.chunks, cn.sentinel.name,
				len(shown), map[bool]string{true: "the un-muting announcement line", false: "the previous token"}[cn.anchorMute >= 0], len(want), -missing,
				div, quoteAround(shown, div, 24), quoteAround(want, div, 24)))
			continue
		}
		// counted only when compared and equal
		z.r.Count("content_regions_compared", 1)
		z.r.Count("content_bytes_compared", int64(len(want)))
		z.r.Count("content:"+cn.where, 1)
		if hadNotice {
			z.r.Count("content_regions_with_status_line_taken_out", 1)
		}
		if cn.where == whereAfterUnmute {
			z.r.Count("content_after_unmute:"+cn.kind, 1)
			if b := want[0]; b >= 0x80 && b <= 0xBF {
				z.r.Count("content_after_unmute_starting_with_continuation_byte", 1)
			}
			if cn.carry {
				// was the head really swallowed?  the last chunk of that mute carried it and was suppressed
				for i := len(z.toks) - 1; i >= 0; i-- {
					if t := z.toks[i]; t.afterM == cn.anchorMute {
						if t.suffix != "" && !t.shown {
							z.r.Count("content_after_unmute_tail_of_swallowed_character", 1)
						}
						break
					}
				}
			}
		}
	}
}

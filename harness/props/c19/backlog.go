package c19

import (
	"fmt"
	"os"
	"path/filepath"
	"regexp"
	"sort"
	"strings"
	"time"

	"github.com/magisterquis/curlrevshell/verifharness/mon"
	"github.com/magisterquis/curlrevshell/verifharness/mon/crs"
	"github.com/magisterquis/curlrevshell/verifharness/mon/hk"
	"github.com/magisterquis/curlrevshell/verifharness/mon/ptyx"
)

// Engine "backlog": Ctrl+O on a terminal that does not keep up with an
// UN-muted flood.
//
// The network delivers shell output faster than the terminal takes it (the
// harness stops draining the pty altogether, or drains it in small openings),
// so the program's writes block and a backlog builds up inside the program.
// While the flood is running, status lines are generated (file requests,
// refused connection attempts); each is requested only after the previous
// request was answered, i.e. after the program accepted the line for display.
// Then Ctrl+O is typed and the terminal drains again.
//
// Promised, and demanded here:
//   - every status line requested is displayed, muted or not, whether it was
//     generated before or after Ctrl+O was typed ("every status and log line
//     still is");
//   - Ctrl+O is announced, the mute ends by itself after calm, and output sent
//     after the un-muting announcement is displayed again;
//   - in the control sessions without Ctrl+O every shell token and every
//     status line is displayed ("without Ctrl+O nothing is ever suppressed").
//
// Not demanded: anything about shell tokens sent before Ctrl+O was typed.
// They were waiting behind the terminal when the mute began; whether a
// particular one is written before or dropped after that instant depends on
// how far the terminal had got, which the statement leaves open.
//
// "Displayed" is decided without a clock: after the terminal drains again a
// sentinel status line is requested; lines are displayed in the order in which
// they were accepted, so once the sentinel is on the terminal every earlier
// status line has either been displayed or never will be.
//
// Non-vacuity is measured, not assumed: a status line answered before Ctrl+O
// was typed counts as "queued at the mute" if it appears on the terminal
// after the muting announcement (accepted before, written after the mute
// began), and as "behind shell output" if a flood token sent before it was
// requested was suppressed and it is displayed after every displayed flood
// token (shell output ahead of it was consumed after the mute began; the
// announcement, written by a goroutine of its own, may come later still).
// Floors on these counters make a run in which no backlog formed inconclusive.

type bstatus struct {
	kind  string // "file" or "refused"
	what  string // human-readable identity
	re    *regexp.Regexp
	after int    // number of flood chunks sent before it was requested
	phase string // "flood": answered before Ctrl+O was typed; "pending": requested after Ctrl+O was typed, before the terminal drained again
	pos   int    // offset on the clean terminal text, -1: not displayed
}

// throttle drains the pty in short openings: a terminal slower than the network.
type throttle struct {
	stop, done chan struct{}
}

func startThrottle(p *ptyx.Proc, shut time.Duration) *throttle {
	t := &throttle{stop: make(chan struct{}), done: make(chan struct{})}
	p.PauseReading()
	go func() {
		defer close(t.done)
		for {
			select {
			case <-t.stop:
				return
			default:
			}
			// one opening: until something has been read (normally one read of a few kB), at most ~2 ms
			before := p.CleanLen()
			p.ResumeReading()
			for i := 0; i < 20 && p.CleanLen() == before; i++ {
				time.Sleep(100 * time.Microsecond)
			}
			p.PauseReading()
			select {
			case <-t.stop:
				return
			case <-time.After(shut):
			}
		}
	}()
	return t
}

// end stops the throttle and lets the terminal drain freely.
func (t *throttle) end(p *ptyx.Proc) {
	if t == nil {
		return
	}
	select {
	case <-t.stop: // ended before
	default:
		close(t.stop)
	}
	<-t.done
	p.ResumeReading()
}

// request makes the program generate one status line and returns once the
// request has been answered (the handler hands the line over before it answers).
func (z *sess) request(kind string, n int) *bstatus {
	var target, pat string
	b := &bstatus{kind: kind, pos: -1}
	switch kind {
	case "file":
		target = fmt.Sprintf("/bl-%d-%d.txt", z.idx, n)
		pat = `File requested: ` + regexp.QuoteMeta(target)
		b.what = "notice of the file request " + target
	default:
		id := fmt.Sprintf("intruder-%d-%d-x", z.idx, n)
		target = "/i/" + id
		pat = `Rejected [^\n]*` + regexp.QuoteMeta(`"`+id+`"`)
		b.what = "notice of the refused input connection with ID " + id
	}
	b.re = regexp.MustCompile(pat)
	res, err := hk.Get(z.s.Addr, "", "x", target)
	if err != nil || res == nil {
		z.r.Inconclusive(fmt.Sprintf("backlog: status request %s was not answered (%v)", target, err))
		z.bad = true
		return nil
	}
	z.ev("status request %s answered %d", target, res.Status)
	return b
}

func runBacklog(r *mon.Run, bin string, idx int) {
	rng := r.Rng("backlog", idx)
	// how the terminal lags, by index so that every tier covers every kind
	mode := []string{"stall", "slow", "stall-slowdrain", "nomute", "slow", "stall"}[idx%6]
	home := filepath.Join(r.Work, fmt.Sprintf("bl%d", idx))
	fdir := filepath.Join(home, "files")
	os.MkdirAll(fdir, 0o755)
	s, err := crs.Start(bin, home, "-listen-address", "127.0.0.1:0", "-tls-certificate-cache", "", "-serve-files-from", fdir)
	if err != nil {
		r.Inconclusive("binary did not start: " + err.Error())
		return
	}
	defer s.Close()
	z := &sess{r: r, idx: 4000 + idx, s: s, t0: time.Now(), eng: "backlog", eidx: idx, fdir: fdir}
	if idx%2 == 0 {
		io, err := crs.OpenIO(s.Addr)
		if err != nil {
			r.Inconclusive(err.Error())
			return
		}
		defer io.Close()
		z.in, z.out = io.In, io.Out
	} else {
		id := fmt.Sprintf("b%d", idx)
		if z.in, err = crs.OpenIn(s.Addr, "/i/"+id); err != nil {
			r.Inconclusive(err.Error())
			return
		}
		defer z.in.Close()
		if _, ok := s.Wait(`Input connected`, 0, crs.Bound); !ok {
			r.Inconclusive("fake shell did not attach")
			return
		}
		if z.out, err = crs.OpenOut(s.Addr, "/o/"+id); err != nil {
			r.Inconclusive(err.Error())
			return
		}
		defer z.out.Close()
	}
	if _, ok := s.Wait(`Shell is ready`, 0, crs.Bound); !ok {
		r.Inconclusive("fake shell did not attach")
		return
	}

	// warm-up: un-muted output is displayed
	warm := fmt.Sprintf("B%d_warm;", z.idx)
	z.out.Send(warm + "\n")
	wloc, ok := s.Wait(regexp.QuoteMeta(warm), 0, ProgressBound)
	if !ok {
		z.viol("suppressed-without-ctrl-o", "the first shell output of the session was not displayed")
		return
	}
	// everything below is looked for after the warm-up token (not after the current end of the
	// text: the prompt at the end is taken away again when the next output is written)
	from0 := wloc[1]

	// the plan: nchunks flood chunks, status lines after given numbers of chunks
	nchunks := 250 + rng.IntN(190) // at most two queue slots per chunk: the 1024-slot queue cannot fill up, requests are always answered
	nstat := 3 + rng.IntN(4)
	tailMin := 3 + rng.IntN(30)
	lead := 40 + rng.IntN(80)
	at := map[int]int{}
	for len(at) < nstat {
		at[lead+rng.IntN(nchunks-tailMin-lead)]++
	}
	var ats []int
	for k := range at {
		ats = append(ats, k)
	}
	sort.Ints(ats)
	pad := strings.Repeat(strings.Repeat(".", 78)+"\n", 24)

	var toks []string // names of the flood tokens, in the order sent
	var stats []*bstatus

	// the terminal starts to lag
	var th *throttle
	switch mode {
	case "slow":
		th = startThrottle(s.P, time.Duration(30+rng.IntN(40))*time.Millisecond)
	default:
		s.P.PauseReading()
	}
	z.ev("terminal lags (%s); flood of %d chunks, status lines after %v", mode, nchunks, ats)
	lagging := true
	defer func() {
		if lagging {
			th.end(s.P)
			s.P.ResumeReading()
		}
	}()

	nreq := 0
	for i := 0; i < nchunks && !z.bad; i++ {
		for k := 0; k < at[i] && !z.bad; k++ {
			nreq++
			if b := z.request([]string{"file", "refused"}[(nreq+idx)%2], nreq); b != nil {
				b.after, b.phase = i, "flood"
				stats = append(stats, b)
			}
		}
		name := fmt.Sprintf("B%d_%d;", z.idx, i)
		size := 300 + rng.IntN(1500)
		if err := z.out.Send(name + "\n" + pad[:size]); err != nil {
			r.Inconclusive("fake shell cannot send: " + err.Error())
			z.bad = true
		}
		toks = append(toks, name)
	}
	if z.bad {
		return
	}
	z.ev("flood sent (%d chunks, %d status lines answered)", len(toks), len(stats))
	time.Sleep(time.Duration(rng.IntN(150)) * time.Millisecond)

	var m *mute
	if mode != "nomute" {
		typed := time.Now()
		s.Ctrl('O')
		z.ev("Ctrl+O typed")
		m = &mute{typed: typed}
		if mode != "slow" {
			// the key cannot be handled before the terminal moves again; status lines keep arriving
			for k, n := 0, 1+rng.IntN(2); k < n && !z.bad; k++ {
				nreq++
				if b := z.request([]string{"file", "refused"}[(nreq+idx)%2], nreq); b != nil {
					b.after, b.phase = len(toks), "pending"
					stats = append(stats, b)
				}
			}
			time.Sleep(time.Duration(rng.IntN(300)) * time.Millisecond)
		}
	}
	if z.bad {
		return
	}

	// the terminal drains again
	switch mode {
	case "stall", "nomute":
		s.P.ResumeReading()
		lagging = false
	case "stall-slowdrain":
		th = startThrottle(s.P, time.Duration(5+rng.IntN(15))*time.Millisecond)
	}
	z.ev("terminal drains again")

	if m != nil {
		loc, ok := s.P.WaitFor(muteRe, from0, ProgressBound)
		if !ok {
			z.viol("ctrl-o-not-announced", fmt.Sprintf("Ctrl+O typed behind a backlog of un-muted shell output got no answer within %s after the terminal drained again", ProgressBound))
			return
		}
		m.mObs, m.mPos = s.P.TimeOfClean(loc[0]), loc[0]
		z.mutes = append(z.mutes, m)
		z.ev("muting announced")
	}
	th.end(s.P)
	s.P.ResumeReading()
	lagging = false

	// barrier: a status line requested now is displayed after every earlier one
	nreq++
	sentinel := z.request("file", nreq)
	if sentinel == nil {
		return
	}
	if _, ok := s.P.WaitFor(sentinel.re, from0, ProgressBound); !ok {
		z.viol("status-line-suppressed", fmt.Sprintf("the %s, requested after the terminal drained again, was not displayed (Ctrl+O typed: %v)", sentinel.what, m != nil))
		return
	}
	var lastTok string
	if m == nil {
		// barrier for shell output: one more token on the same stream
		lastTok = fmt.Sprintf("B%d_last;", z.idx)
		z.out.Send(lastTok + "\n")
		if _, ok := s.Wait(regexp.QuoteMeta(lastTok), from0, ProgressBound); !ok {
			z.viol("suppressed-without-ctrl-o", "a shell token sent after the backlog (no Ctrl+O in the session) was not displayed")
			return
		}
	}

	// judgement on the terminal text as it is now
	clean := s.P.Clean()
	shown, supp := 0, 0
	firstSupp := len(toks) // index of the first suppressed flood token
	pos := from0
	for i, name := range toks {
		if j := strings.Index(clean[pos:], name); j >= 0 {
			shown++
			pos += j + len(name)
		} else {
			supp++
			if i < firstSupp {
				firstSupp = i
			}
			if m == nil {
				z.viol("suppressed-without-ctrl-o", fmt.Sprintf("shell token %s (chunk %d of %d of a flood on a lagging terminal, no Ctrl+O in the session) was never displayed", name, i, len(toks)))
				z.bad = true
				break
			}
		}
		if n := strings.Count(clean[from0:], name); n > 1 {
			z.viol("output-duplicated", fmt.Sprintf("token %s appears %d times on the terminal", name, n))
			z.bad = true
			break
		}
	}
	nq, nbehind := 0, 0
	for _, b := range stats {
		if loc := b.re.FindStringIndex(clean[from0:]); loc != nil {
			b.pos = from0 + loc[0]
		}
		if b.pos < 0 {
			how := "no Ctrl+O in the session"
			if m != nil {
				how = "answered before Ctrl+O was typed"
				if b.phase == "pending" {
					how = "requested after Ctrl+O was typed, before the terminal drained again"
				}
			}
			key := "status-line-lost-behind-backlog"
			if m == nil {
				key = "status-line-suppressed"
			}
			z.viol(key, fmt.Sprintf("the %s (requested after %d of %d flood chunks on a lagging terminal; %s) was never displayed although a status line requested later is on the terminal; %d of the flood tokens were displayed, %d not", b.what, b.after, len(toks), how, shown, supp))
			z.bad = true
			continue
		}
		r.Count("backlog_status_lines_displayed", 1)
		if m != nil && b.phase == "flood" {
			// accepted before Ctrl+O was typed and written after the mute had begun
			if b.pos > m.mPos {
				nq++
			}
			// a flood token sent before it was suppressed and no flood token is displayed after it:
			// shell output ahead of it was consumed after the mute had begun (the announcement
			// itself may come later still, it is written by a goroutine of its own)
			if firstSupp < b.after && b.pos > pos {
				nbehind++
			}
		}
	}
	z.ev("flood tokens displayed %d, suppressed %d; status lines %d, of them queued at the mute %d, behind suppressed shell output %d", shown, supp, len(stats), nq, nbehind)
	if !z.bad {
		r.Count("backlog_status_lines_queued_at_mute", int64(nq))
		r.Count("backlog_status_lines_behind_shell_output", int64(nbehind))
		r.Count("backlog_tokens_displayed", int64(shown))
		if m != nil {
			r.Count("backlog_tokens_suppressed", int64(supp))
			if nbehind > 0 {
				r.Count("backlog_sessions_with_queued_status", 1)
			}
		} else {
			r.Count("backlog_nomute_sessions", 1)
		}
	}

	// the mute ends by itself and output comes back
	if m != nil && !z.bad {
		z.awaitUnmute(time.Now())
		if !z.bad {
			fin := fmt.Sprintf("B%d_fin;", z.idx)
			z.out.Send(fin + "\n")
			if _, ok := s.Wait(regexp.QuoteMeta(fin), m.uPos, ProgressBound); !ok {
				z.viol("output-after-unmute-not-displayed", "output sent after the un-muting announcement was not displayed")
				z.bad = true
			}
		}
	}
	if !z.bad {
		st, sig, ok := s.Quit()
		if !ok || st != 0 {
			r.Inconclusive(fmt.Sprintf("binary did not exit cleanly (status %d %s %v)", st, sig, ok))
		}
	}
	r.Eval(1)
	r.Count("backlog_sessions", 1)
	r.Distinct(fmt.Sprintf("backlog|%s|%d|%v", mode, nchunks, ats))
	if idx < 2 {
		r.Sample("backlog", map[string]any{"mode": mode, "chunks": nchunks, "status_after_chunks": ats, "displayed": shown, "suppressed": supp, "queued_at_mute": nq, "behind_shell_output": nbehind, "timeline": z.events})
	}
}

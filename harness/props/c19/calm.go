package c19

import (
	"fmt"
	"path/filepath"
	"regexp"
	"strings"
	"sync"
	"time"

	"github.com/magisterquis/curlrevshell/verifharness/mon"
	"github.com/magisterquis/curlrevshell/verifharness/mon/crs"
)

// Engine calm: THE LENGTH OF THE CALM.  "Muting ends on its own once no shell
// output has arrived for the pause interval (two seconds), this is announced,
// and shell output arriving afterwards is displayed again."  The other engines
// wait for the un-muting announcement and only then send; here the fake shell
// does not wait for anything: after Ctrl+O muted chunks arrive at scripted
// offsets from the key press, then the shell is silent for a gap well beyond
// the pause interval (2.6 / 3.0 / 3.4 s) and sends a recognisable chunk (the
// probe).  By then the mute must have ended by itself: the un-muting
// announcement stands before the probe on the terminal and the probe is
// displayed.  The phase of the last muted chunk relative to the key press
// varies (+0.3, +0.9, +1.0, +1.5, +1.9 s, or the last of several chunks), so a
// program that only looks at the clock now and then, counted from the key
// press, is seen at every phase.
//
// The property is about real time here.  The harness measures when it really
// sent each chunk and judges on the measured gap (from the return of the last
// muted send to the start of the probe's send, never shorter than scripted).
// A starved machine can delay the program's own timer, so a deviating cycle is
// only a suspect: it is run again alone, as a session of its own, with the gap
// widened to 3.6 s, and only a deviation there is a violation.

const (
	calmCyclesPerSession = 3
	calmConfirmGap       = 3600 * time.Millisecond
	calmMinJudgedGap     = Pause + 500*time.Millisecond
)

var calmPhases = []struct {
	name string
	last time.Duration // offset of the last muted chunk from the key press; 0 = several chunks, drawn
}{
	{"last-chunk-at-0.3s", 300 * time.Millisecond},
	{"last-chunk-at-0.9s", 900 * time.Millisecond},
	{"last-chunk-at-1.0s", 1000 * time.Millisecond},
	{"last-chunk-at-1.5s", 1500 * time.Millisecond},
	{"last-chunk-at-1.9s", 1900 * time.Millisecond},
	{"several-chunks", 0},
}

var calmGaps = []time.Duration{2600 * time.Millisecond, 3000 * time.Millisecond, 3400 * time.Millisecond}

type calmCase struct {
	phase   int
	offsets []time.Duration // offsets from the key press at which muted chunks are sent
	gap     time.Duration   // silence after the last of them
}

func (c calmCase) gapName() string { return fmt.Sprintf("%.1fs", c.gap.Seconds()) }

func (c calmCase) String() string {
	var o []string
	for _, d := range c.offsets {
		o = append(o, fmt.Sprintf("+%.2f", d.Seconds()))
	}
	return fmt.Sprintf("%s chunks at %s s after Ctrl+O, then %s of silence", calmPhases[c.phase].name, strings.Join(o, " "), c.gapName())
}

// calmPlan: the cases of session idx.  Over the sessions of a run (cycle
// ordinal p = session x 3 + cycle, rotated by a draw of the run's seed) every
// phase meets every gap equally often.
func calmPlan(r *mon.Run, idx int) []calmCase {
	np, ng := len(calmPhases), len(calmGaps)
	rot := r.Rng("calm-plan", 0).IntN(np * ng)
	rng := r.Rng("calm", idx)
	var out []calmCase
	for c := 0; c < calmCyclesPerSession; c++ {
		p := idx*calmCyclesPerSession + c + rot
		cs := calmCase{phase: p % np, gap: calmGaps[(p/np)%ng]}
		if last := calmPhases[cs.phase].last; last > 0 {
			last += time.Duration(rng.IntN(41)-20) * time.Millisecond
			// every other case: an earlier muted chunk as well
			if last > 800*time.Millisecond && rng.IntN(2) == 0 {
				cs.offsets = append(cs.offsets, 100*time.Millisecond+time.Duration(rng.Int64N(int64(last-400*time.Millisecond))))
			}
			cs.offsets = append(cs.offsets, last)
		} else {
			at := time.Duration(100+rng.IntN(200)) * time.Millisecond
			for i, n := 0, 3+rng.IntN(3); i < n; i++ {
				cs.offsets = append(cs.offsets, at)
				at += time.Duration(150+rng.IntN(300)) * time.Millisecond
			}
		}
		out = append(out, cs)
	}
	return out
}

type calmResult struct {
	cs        calmCase
	verdict   string // "displayed", "suppressed", "unannounced", "unjudged"
	what      string
	gap       time.Duration   // measured: return of the last muted send -> start of the probe's send
	offsets   []time.Duration // measured offsets of the muted chunks from the key press
	sendDelay time.Duration   // largest lateness of a scripted send (the harness's own scheduling delay)
	timeline  []string
	terminal  string
}

// runCalm runs one session with the given cycles.  ok = false: the session
// could not be run or judged (reported as inconclusive or as a violation of
// one of the general rules by the callee).
func runCalm(r *mon.Run, bin string, idx int, cases []calmCase, tag string) (res []calmResult, ok bool) {
	home := filepath.Join(r.Work, fmt.Sprintf("calm%d%s", idx, tag))
	s, err := crs.Start(bin, home, "-listen-address", "127.0.0.1:0", "-tls-certificate-cache", "")
	if err != nil {
		r.Inconclusive("binary did not start: " + err.Error())
		return nil, false
	}
	defer s.Close()
	zidx := 4000 + idx
	if tag != "" {
		zidx += 500
	}
	z := &sess{r: r, idx: zidx, s: s, t0: time.Now(), eng: "calm", eidx: idx}
	io, err := crs.OpenIO(s.Addr)
	if err != nil {
		r.Inconclusive(err.Error())
		return nil, false
	}
	defer io.Close()
	z.in, z.out = io.In, io.Out
	if _, ok := s.Wait(`Shell is ready`, 0, crs.Bound); !ok {
		r.Inconclusive("fake shell did not attach")
		return nil, false
	}
	for ci, cs := range cases {
		z.ev("cycle %d: %s", ci, cs)
		z.send() // un-muted: must be displayed (awaited by ctrlO)
		time.Sleep(30 * time.Millisecond)
		z.ctrlO()
		if z.bad {
			return res, false
		}
		m := z.mutes[len(z.mutes)-1]
		cr := calmResult{cs: cs}
		var lastEnd time.Time
		var muted []*token
		for _, off := range cs.offsets {
			sleepUntil(m.typed.Add(off))
			t := z.send()
			lastEnd = time.Now()
			muted = append(muted, t)
			cr.offsets = append(cr.offsets, t.sent.Sub(m.typed))
			if d := t.sent.Sub(m.typed.Add(off)); d > cr.sendDelay {
				cr.sendDelay = d
			}
		}
		if z.bad {
			return res, false
		}
		// the silence; nothing is awaited, nothing is sent
		sleepUntil(lastEnd.Add(cs.gap))
		probe := z.send()
		if z.bad {
			return res, false
		}
		cr.gap = probe.sent.Sub(lastEnd)
		if d := cr.gap - cs.gap; d > cr.sendDelay {
			cr.sendDelay = d
		}
		z.ev("probe %s sent %.3f s after the last muted chunk had been sent (scripted %.1f s)", probe.name, cr.gap.Seconds(), cs.gap.Seconds())
		// the mute ends at some point (bounded progress, rule of the other engines) ...
		z.awaitUnmute(lastEnd)
		if z.bad {
			return res, false
		}
		// ... and what is sent after the announcement was read closes the region to look at
		fin := z.send()
		if _, ok := s.Wait(regexp.QuoteMeta(fin.name), 0, ProgressBound); !ok {
			z.viol("output-after-unmute-not-displayed", fmt.Sprintf("token %s sent after the un-muting announcement was not displayed", fin.name))
			return res, false
		}
		clean := s.P.Clean()
		finPos := strings.LastIndex(clean, fin.name)
		region := clean[m.mPos:finPos]
		pp := strings.Index(region, probe.name)
		up := strings.Index(region, "Unmuting")
		nsupp := 0
		for _, t := range muted {
			if !strings.Contains(region, t.name) {
				nsupp++
			}
		}
		switch {
		case cr.gap < calmMinJudgedGap:
			cr.verdict = "unjudged"
		case pp < 0:
			cr.verdict = "suppressed"
			cr.what = fmt.Sprintf("after Ctrl+O shell output arrived at %v after the key press, then nothing for %.3f s (measured in the harness, send to send; pause interval: %s), then chunk %s: that chunk was swallowed, the mute had not ended by itself", cr.offsets, cr.gap.Seconds(), Pause, probe.name)
		case up < 0 || up > pp:
			cr.verdict = "unannounced"
			cr.what = fmt.Sprintf("after Ctrl+O shell output arrived at %v after the key press, then nothing for %.3f s, then chunk %s: it is displayed, but no un-muting announcement stands before it", cr.offsets, cr.gap.Seconds(), probe.name)
		default:
			cr.verdict = "displayed"
		}
		z.ev("cycle %d: probe %s (%d of %d muted chunks suppressed)", ci, cr.verdict, nsupp, len(muted))
		if tag == "" {
			r.Count("calm_cycles", 1)
			r.Count("calm_muted_chunks_sent", int64(len(muted)))
			r.Count("calm_muted_chunks_suppressed", int64(nsupp))
			if cr.verdict == "displayed" {
				r.Count("calm_probe_displayed_after_announcement", 1)
				r.Count("calm_phase:"+calmPhases[cs.phase].name, 1)
				r.Count("calm_gap:"+cs.gapName(), 1)
			}
		}
		res = append(res, cr)
		time.Sleep(50 * time.Millisecond)
	}
	// the general rules (nothing displayed while the mute must hold, no un-mute before 2 s of calm, ...)
	z.judge(true)
	for i := range res {
		res[i].timeline = z.events
		res[i].terminal = tail(s.P.Clean(), 2500)
	}
	st, sig, okq := s.Quit()
	if !okq || st != 0 {
		r.Inconclusive(fmt.Sprintf("binary did not exit cleanly (status %d %s %v)", st, sig, okq))
	}
	if tag == "" {
		r.Count("calm_sessions", 1)
		r.Count("tokens_sent", int64(len(z.toks)))
		if idx < 1 {
			r.Sample("calm", map[string]any{"cycles": fmt.Sprint(cases), "timeline": z.events})
		}
	}
	return res, true
}

type calmSuspect struct {
	idx, cycle int
	first      calmResult
}

type calmEngine struct {
	n        int
	mu       sync.Mutex
	suspects []calmSuspect
	maxDelay time.Duration
	maxGapX  time.Duration
}

// run: the sessions, at the same time as the other real-time sessions.
func (e *calmEngine) run(r *mon.Run, bin string) {
	mon.Parallel(e.n, e.n, func(i int) {
		if !r.Want("calm", i) {
			return
		}
		cases := calmPlan(r, i)
		res, ok := runCalm(r, bin, i, cases, "")
		r.Eval(1)
		if !ok {
			return
		}
		var sig []string
		e.mu.Lock()
		for c, cr := range res {
			sig = append(sig, fmt.Sprintf("%d/%s/%d", cr.cs.phase, cr.cs.gapName(), len(cr.cs.offsets)))
			if cr.sendDelay > e.maxDelay {
				e.maxDelay = cr.sendDelay
			}
			if x := cr.gap - cr.cs.gap; x > e.maxGapX {
				e.maxGapX = x
			}
			switch cr.verdict {
			case "suppressed", "unannounced":
				e.suspects = append(e.suspects, calmSuspect{i, c, cr})
			case "unjudged":
				r.Count("calm_cycles_unjudged", 1)
			}
		}
		e.mu.Unlock()
		r.Distinct("calm|" + strings.Join(sig, ","))
	})
}

// confirm: every suspect again, alone (call it when nothing else runs), with
// the gap widened.  Only a deviation that shows again is a violation.
func (e *calmEngine) confirm(r *mon.Run, bin string) {
	confirmed := 0
	for k, su := range e.suspects {
		if confirmed >= 2 {
			r.Count("calm_suspects_not_rerun", int64(len(e.suspects)-k))
			break
		}
		cs := su.first.cs
		cs.gap = calmConfirmGap
		r.Count("calm_suspects_rerun_alone", 1)
		res, ok := runCalm(r, bin, su.idx, []calmCase{cs}, fmt.Sprintf("-alone%d", su.cycle))
		r.Eval(1)
		if !ok || len(res) != 1 {
			continue
		}
		again := res[0]
		if again.verdict != "suppressed" && again.verdict != "unannounced" {
			// the first observation is explained by load (or needs that very gap): not a verdict
			r.Count("calm_suspects_not_reproduced_alone", 1)
			r.Logf("calm: session %d cycle %d (%s): probe %s with measured gap %.3f s, but %s alone with gap %.3f s", su.idx, su.cycle, su.first.cs, su.first.verdict, su.first.gap.Seconds(), again.verdict, again.gap.Seconds())
			continue
		}
		confirmed++
		key := "mute-outlasts-calm"
		if again.verdict == "unannounced" {
			key = "mute-ended-without-announcement"
		}
		r.Violate("calm", su.idx, key, again.what+fmt.Sprintf(" (seen first among the concurrent sessions with a measured gap of %.3f s, then again in a session run alone with the gap widened)", su.first.gap.Seconds()),
			map[string]any{"case": su.first.cs.String(), "first_gap_s": su.first.gap.Seconds(), "first_verdict": su.first.verdict, "first_timeline": su.first.timeline,
				"alone_gap_s": again.gap.Seconds(), "alone_offsets": fmt.Sprint(again.offsets), "alone_send_delay_s": again.sendDelay.Seconds(), "alone_timeline": again.timeline, "alone_terminal_tail": again.terminal})
	}
}

func (e *calmEngine) floors(r *mon.Run) {
	cycles := int64(e.n * calmCyclesPerSession)
	r.Floor("calm_sessions", int64(e.n))
	r.Floor("calm_cycles", cycles)
	twoThirds := func(n int64) int64 { return (2*n + 2) / 3 }
	r.Floor("calm_probe_displayed_after_announcement", twoThirds(cycles))
	for _, p := range calmPhases {
		r.Floor("calm_phase:"+p.name, twoThirds(cycles/int64(len(calmPhases))))
	}
	for _, g := range calmGaps {
		r.Floor("calm_gap:"+calmCase{gap: g}.gapName(), twoThirds(cycles/int64(len(calmGaps))))
	}
	r.Floor("calm_muted_chunks_suppressed", cycles) // every cycle really had muted output before the silence
	r.Extra("calm_harness_send_delay_max_s", e.maxDelay.Seconds())
	r.Extra("calm_measured_gap_excess_max_s", e.maxGapX.Seconds())
}

// Package c19: Ctrl+O mutes only shell output, ends by itself after calm,
// loses nothing else.  Monitored in real time on the real binary.
package c19

import (
	"fmt"
	"os"
	"path/filepath"
	"regexp"
	"strings"
	"sync"
	"time"

	"github.com/magisterquis/curlrevshell/verifharness/mon"
	"github.com/magisterquis/curlrevshell/verifharness/mon/crs"
	"github.com/magisterquis/curlrevshell/verifharness/mon/hk"
)

const Level = "exploration"

// Pause is the interval stated by the property (two seconds).
const Pause = 2 * time.Second

// ProgressBound is the bounded-progress limit for "un-mutes after calm".
const ProgressBound = 20 * time.Second

type token struct {
	name   string
	sent   time.Time // instant just before the send started
	afterM int       // index of the mute period it was sent in (-1: sent while believed un-muted)
	shown  bool
	posAt  int       // offset in the clean terminal text
	shownT time.Time // when the chunk containing it was read from the pty
	suffix string    // bytes sent in the same chunk right after the name (head of a multibyte character, muted chunks only)
}

type mute struct {
	typed   time.Time // instant just before Ctrl+O was written
	mObs    time.Time // "Muting" announcement read
	mPos    int
	uObs    time.Time // matching "Unmuting" announcement read
	uPos    int
	ended   bool
	notices []int // terminal offsets of status lines requested during the mute
}

type sess struct {
	r      *mon.Run
	idx    int
	s      *crs.Session
	out    *crs.OutStream
	in     *crs.InStream
	toks   []*token
	mutes  []*mute
	t0     time.Time
	events []string
	ntok   int
	bad    bool
	fdir   string
	eng    string // engine and index violations are reported under ("" = session, idx)
	eidx   int

	// content dimension (content.go)
	contents    []*content
	pending     *content // content sent, sentinel token not yet
	fresh       bool     // an un-muting announcement has been read and nothing sent since
	mutedSuffix string   // appended to every chunk sent while muted (head of a multibyte character)
}

func (z *sess) ev(f string, a ...any) {
	z.events = append(z.events, fmt.Sprintf("%6.3fs ", time.Since(z.t0).Seconds())+fmt.Sprintf(f, a...))
}

func (z *sess) viol(key, what string) {
	eng, idx := "session", z.idx
	if z.eng != "" {
		eng, idx = z.eng, z.eidx
	}
	z.r.Violate(eng, idx, key, what, map[string]any{"timeline": z.events, "terminal_tail": tail(z.s.P.Clean(), 2500)})
}

func tail(s string, n int) string {
	if len(s) > n {
		return s[len(s)-n:]
	}
	return s
}

func (z *sess) muted() *mute {
	if n := len(z.mutes); n > 0 && !z.mutes[n-1].ended {
		return z.mutes[n-1]
	}
	return nil
}

// send sends one token through the fake shell's output stream.
func (z *sess) send() *token {
	z.ntok++
	t := &token{name: fmt.Sprintf("T%d_%d;", z.idx, z.ntok), afterM: -1}
	if m := z.muted(); m != nil {
		t.afterM = len(z.mutes) - 1
		t.suffix = z.mutedSuffix
	}
	if z.pending != nil {
		z.pending.sentinel, z.pending = t, nil
	}
	z.fresh = false
	t.sent = time.Now()
	if err := z.out.Send(t.name + t.suffix); err != nil {
		z.r.Inconclusive("fake shell cannot send: " + err.Error())
		z.bad = true
	}
	z.toks = append(z.toks, t)
	z.ev("token %s sent", t.name)
	return t
}

// lastUnmutedShown waits until the most recent token that was sent while the
// harness knew the terminal to be un-muted is on the terminal; as output is
// ordered, every earlier such token that will ever be shown has then been shown.
func (z *sess) lastUnmutedShown() {
	for i := len(z.toks) - 1; i >= 0; i-- {
		t := z.toks[i]
		if t.afterM >= 0 {
			return
		}
		if _, ok := z.s.Wait(regexp.QuoteMeta(t.name), 0, ProgressBound); !ok {
			z.viol("output-while-unmuted-not-displayed", fmt.Sprintf("token %s was sent while the terminal was un-muted but is not displayed", t.name))
			z.bad = true
		}
		return
	}
}

var muteRe = regexp.MustCompile(`Already muted|Muting until we get`)

// ctrlO types Ctrl+O and waits for the announcement.
func (z *sess) ctrlO() {
	already := z.muted() != nil
	if !already {
		z.lastUnmutedShown()
		if z.bad {
			return
		}
	}
	from := z.s.P.CleanLen()
	typed := time.Now()
	z.s.Ctrl('O')
	z.ev("Ctrl+O typed (harness believes muted: %v)", already)
	loc, ok := z.s.P.WaitFor(muteRe, from, ProgressBound)
	if !ok {
		z.viol("ctrl-o-not-announced", "Ctrl+O printed neither the muting announcement nor 'Already muted'")
		z.bad = true
		return
	}
	text := z.s.P.Clean()[loc[0]:loc[1]]
	if strings.HasPrefix(text, "Already") {
		z.r.Count("ctrl_o_while_muted", 1)
		if !already {
			z.viol("already-muted-without-mute", "Ctrl+O answered 'Already muted' although the un-muting announcement had been read and no Ctrl+O typed since")
			z.bad = true
		}
		return
	}
	if already {
		// the previous mute had expired meanwhile (a long pause): its announcement must be there
		m := z.muted()
		if l2, ok := z.s.Wait(`Unmuting`, m.mPos, ProgressBound); ok && l2[0] < loc[0] {
			m.uObs, m.uPos, m.ended = z.s.P.TimeOfClean(l2[0]), l2[0], true
			z.fresh = true
		} else {
			z.r.Inconclusive("a new mute began while the harness believed the old one in force, without an un-muting announcement before it")
			z.bad = true
			return
		}
	}
	m := &mute{typed: typed, mObs: z.s.P.TimeOfClean(loc[0]), mPos: loc[0]}
	z.mutes = append(z.mutes, m)
	z.fresh = false
	z.r.Count("mute_periods", 1)
	z.ev("muting announced")
}

// awaitUnmute waits (bounded) for the un-muting announcement after calm.
func (z *sess) awaitUnmute(lastSend time.Time) {
	m := z.muted()
	if m == nil {
		return
	}
	loc, ok := z.s.Wait(`Unmuting`, m.mPos, Pause+ProgressBound)
	if !ok {
		// responsiveness canary: is the process serving promptly?
		from := z.s.P.CleanLen()
		hk.Get(z.s.Addr, "", "x", "/canary-"+fmt.Sprint(z.ntok))
		if _, ok2 := z.s.Wait(`File requested: /canary-`, from, ProgressBound); ok2 {
			z.viol("mute-does-not-end", fmt.Sprintf("no un-muting announcement within %s after the last shell output although the process answers requests", Pause+ProgressBound))
		} else {
			z.r.Inconclusive("process unresponsive while waiting for un-mute")
		}
		z.bad = true
		return
	}
	m.uObs = z.s.P.TimeOfClean(loc[0])
	m.uPos = loc[0]
	m.ended = true
	z.fresh = true
	z.ev("unmuting announced")
}

// statusLine makes a file request whose notice must be displayed although muted.
func (z *sess) statusLine() {
	m := z.muted()
	tag := fmt.Sprintf("/status-%d-%d", z.idx, z.ntok)
	from := z.s.P.CleanLen()
	res, err := hk.Get(z.s.Addr, "", "x", tag)
	if err != nil || res == nil {
		z.r.Inconclusive("status request failed")
		return
	}
	z.ev("status request %s answered %d", tag, res.Status)
	loc, ok := z.s.Wait(regexp.QuoteMeta("File requested: "+tag), from, ProgressBound)
	if !ok {
		z.viol("status-line-suppressed", fmt.Sprintf("the notice for request %s was not displayed (muted: %v)", tag, m != nil))
		return
	}
	z.r.Count("status_lines_checked", 1)
	if m != nil {
		m.notices = append(m.notices, loc[0])
		z.r.Count("status_lines_while_muted", 1)
	}
}

func sleepUntil(t time.Time) {
	if d := time.Until(t); d > 0 {
		time.Sleep(d)
	}
}

// runLockOrder: Ctrl+O typed while un-muted shell output is being written
// continuously.  The key handler runs with the terminal's own lock held and
// then needs the shell's write lock, while the output path takes them in the
// opposite order; the verif pause point stretches the window between the two
// acquisitions (where the scheduler may preempt anyway).  The announcement
// must still appear and the mute must still end.
func runLockOrder(r *mon.Run, bin string, idx int) {
	rng := r.Rng("lockorder", idx)
	home := filepath.Join(r.Work, fmt.Sprintf("lo%d", idx))
	pause := []string{"2ms", "20ms", "100ms"}[rng.IntN(3)]
	s, err := crs.StartEnv(bin, home, []string{"VERIF_OPSHELL_PAUSE=ctrl-o=" + pause}, "-listen-address", "127.0.0.1:0", "-tls-certificate-cache", "")
	if err != nil {
		r.Inconclusive("binary did not start: " + err.Error())
		return
	}
	defer s.Close()
	z := &sess{r: r, idx: 1000 + idx, s: s, t0: time.Now(), eng: "lockorder", eidx: idx}
	io, err := crs.OpenIO(s.Addr)
	if err != nil {
		r.Inconclusive(err.Error())
		return
	}
	defer io.Close()
	z.in, z.out = io.In, io.Out
	if _, ok := s.Wait(`Shell is ready`, 0, crs.Bound); !ok {
		r.Inconclusive("fake shell did not attach")
		return
	}
	stop := make(chan struct{})
	flooded := make(chan int, 1)
	go func() {
		n := 0
		for {
			select {
			case <-stop:
				flooded <- n
				return
			default:
			}
			if z.out.Send("flood-flood-flood-flood-flood-flood-flood\n") != nil {
				flooded <- n
				return
			}
			n++
		}
	}()
	time.Sleep(time.Duration(50+rng.IntN(100)) * time.Millisecond)
	from := s.P.CleanLen()
	s.Ctrl('O')
	z.ev("Ctrl+O typed during an un-muted flood (pause point %s)", pause)
	_, ok := s.P.WaitFor(muteRe, from, ProgressBound)
	close(stop)
	n := <-flooded
	if !ok {
		z.viol("ctrl-o-not-announced", fmt.Sprintf("Ctrl+O typed while shell output was being written got no answer within %s (%d chunks sent meanwhile): the terminal is stuck", ProgressBound, n))
	} else {
		// the mute must end after calm and output must come back
		if _, ok := s.Wait(`Unmuting`, from, Pause+ProgressBound); !ok {
			z.viol("mute-does-not-end", "no un-muting announcement after the flood stopped")
		} else {
			z.out.Send("AFTER-LOCKORDER;")
			if _, ok := s.Wait(`AFTER-LOCKORDER;`, from, ProgressBound); !ok {
				z.viol("output-after-unmute-not-displayed", "output sent after the un-muting announcement was not displayed")
			}
		}
	}
	r.Eval(1)
	r.Count("lockorder_sessions", 1)
	r.Count("lockorder_chunks_during_ctrl_o", int64(n))
	r.Distinct(fmt.Sprintf("lockorder|%s|%d", pause, idx))
	s.Quit()
}

// runRepeat: a repeated Ctrl+O after the last shell output must not extend
// the mute: "muting ends once no shell output has arrived for the pause
// interval".  This is an upper bound on a real-time delay, so it is judged
// against a baseline measured in the same session (a plain mute cycle) and a
// firing is confirmed by running the session again, alone.
// It returns "" (held), "inconclusive" or a description of the overrun.
func runRepeat(r *mon.Run, bin string, idx int, tag string) string {
	home := filepath.Join(r.Work, fmt.Sprintf("rp%d%s", idx, tag))
	s, err := crs.Start(bin, home, "-listen-address", "127.0.0.1:0", "-tls-certificate-cache", "")
	if err != nil {
		return "inconclusive"
	}
	defer s.Close()
	z := &sess{r: r, idx: 2000 + idx, s: s, t0: time.Now()}
	io, err := crs.OpenIO(s.Addr)
	if err != nil {
		return "inconclusive"
	}
	defer io.Close()
	z.in, z.out = io.In, io.Out
	if _, ok := s.Wait(`Shell is ready`, 0, crs.Bound); !ok {
		return "inconclusive"
	}
	cycle := func(repeatAfter time.Duration) (over time.Duration, ok bool) {
		z.send()
		z.ctrlO()
		if z.bad {
			return 0, false
		}
		for i := 0; i < 4; i++ {
			z.send()
			time.Sleep(100 * time.Millisecond)
		}
		last := z.toks[len(z.toks)-1].sent
		if repeatAfter > 0 {
			sleepUntil(last.Add(repeatAfter))
			z.ctrlO() // "Already muted": must not restart the quiet period
			if z.bad {
				return 0, false
			}
		}
		z.awaitUnmute(last)
		if z.bad {
			return 0, false
		}
		m := z.mutes[len(z.mutes)-1]
		return m.uObs.Sub(last.Add(Pause)), true
	}
	base, ok := cycle(0)
	if !ok {
		return "inconclusive"
	}
	rep, ok := cycle(1200 * time.Millisecond)
	if !ok {
		return "inconclusive"
	}
	z.ev("baseline overrun %.3fs, overrun with a repeated Ctrl+O 1.2 s after the last output %.3fs", base.Seconds(), rep.Seconds())
	r.Count("repeat_cycles", 1)
	s.Quit()
	if base > 300*time.Millisecond {
		return "inconclusive" // the machine is too loaded for a sub-second judgement
	}
	if rep > base+800*time.Millisecond {
		return fmt.Sprintf("with a second Ctrl+O typed 1.2 s after the last shell output the un-muting announcement came %.3f s after the pause interval had passed (baseline in the same session: %.3f s): the repeated Ctrl+O extended the mute although no shell output arrived", rep.Seconds(), base.Seconds())
	}
	return ""
}

func runSession(r *mon.Run, bin string, idx int, withCtrlO bool) {
	rng := r.Rng("session", idx)
	home := filepath.Join(r.Work, fmt.Sprintf("s%d", idx))
	fdir := filepath.Join(home, "files")
	os.MkdirAll(fdir, 0o755)
	s, err := crs.Start(bin, home, "-listen-address", "127.0.0.1:0", "-tls-certificate-cache", "", "-serve-files-from", fdir)
	if err != nil {
		r.Inconclusive("binary did not start: " + err.Error())
		return
	}
	defer s.Close()
	z := &sess{r: r, idx: idx, s: s, t0: time.Now(), fdir: fdir}
	id := fmt.Sprintf("m%d", idx)
	if z.in, err = crs.OpenIn(s.Addr, "/i/"+id); err != nil {
		r.Inconclusive(err.Error())
		return
	}
	defer z.in.Close()
	if _, ok := s.Wait(`Input connected`, 0, crs.Bound); !ok {
		r.Inconclusive("fake shell did not attach")
		return
	}
	if z.out, err = crs.OpenOut(s.Addr, "/o/"+id); err != nil {
		r.Inconclusive(err.Error())
		return
	}
	defer z.out.Close()
	if _, ok := s.Wait(`Shell is ready`, 0, crs.Bound); !ok {
		r.Inconclusive("fake shell did not attach")
		return
	}
	// un-muted warm-up: everything must be displayed
	for i := 0; i < 3; i++ {
		z.send()
		time.Sleep(time.Duration(20+rng.IntN(60)) * time.Millisecond)
	}
	cycles := r.N(2, 6)
	// content dimension: its own PRNG stream, so that the schedules drawn from rng stay what they were
	crng := r.Rng("content", idx)
	nk := len(contentKinds)
	w := idx - idx/4 // ordinal of this session among those with Ctrl+O (index%4 != 3)
	if withCtrlO {
		// control: before the first Ctrl+O everything is displayed as sent
		z.sendContent(crng, whereBeforeMute, w%nk, w%2 == 1, nil, false)
		z.send()
	}
	if !withCtrlO {
		// no Ctrl+O in the whole session: nothing may ever be suppressed
		for i := 0; i < 40 && !z.bad; i++ {
			if i%4 == 1 {
				// every class of content, with and without a character split across chunks, and
				// (i = 5, 25) with a status line in the middle of it
				z.sendContent(crng, whereNoCtrlO, (i/4+idx)%nk, (i/4)%2 == 1, nil, i%10 == 5)
			}
			z.send()
			if i%10 == 5 {
				z.statusLine()
			}
			time.Sleep(time.Duration(10+rng.IntN(200)) * time.Millisecond)
		}
		cycles = 0
	}
	var kinds []string
	for c := 0; c < cycles && !z.bad; c++ {
		kind := []string{"flood", "flood", "slow", "gap", "pre", "burst"}[rng.IntN(6)]
		kinds = append(kinds, kind)
		z.ev("cycle %d: %s", c, kind)
		// what is sent first once this cycle's mute is over: the class of its first bytes runs
		// through all classes over the cycles of the run; in every other group of nk cycles every
		// chunk sent during the mute ends with the head of a multibyte character, whose tail then
		// comes first (the mute swallowed the head)
		p := w*cycles + c
		ckind := (p + p/nk) % nk
		var tail []byte
		if (p/nk)%2 == 1 {
			ch := newCarried(crng)
			z.mutedSuffix, tail = string(ch.head), ch.tail
		}
		switch kind {
		case "flood": // continuous flood, Ctrl+O in the middle, status lines and a second Ctrl+O while muted
			end := time.Now().Add(time.Duration(2500+rng.IntN(1500)) * time.Millisecond)
			pressAt := time.Now().Add(time.Duration(300+rng.IntN(500)) * time.Millisecond)
			pressed, again, status := false, false, 0
			for time.Now().Before(end) && !z.bad {
				z.send()
				if !pressed && time.Now().After(pressAt) {
					z.ctrlO()
					pressed = true
				} else if pressed && status < 2 && rng.IntN(4) == 0 {
					z.statusLine()
					status++
				} else if pressed && !again && rng.IntN(5) == 0 {
					z.ctrlO()
					again = true
				}
				time.Sleep(time.Duration(50+rng.IntN(250)) * time.Millisecond)
			}
		case "burst": // Ctrl+O, then many tokens back to back
			z.send()
			z.ctrlO()
			for i := 0; i < 30 && !z.bad; i++ {
				z.send()
			}
			z.statusLine()
		case "slow": // gaps just below the pause interval: must stay muted throughout
			z.send()
			z.ctrlO()
			for i := 0; i < 3 && !z.bad; i++ {
				z.send()
				time.Sleep(1500 * time.Millisecond)
			}
			z.send()
		case "gap": // a gap above the pause interval: must un-mute in between
			z.send()
			z.ctrlO()
			last := z.send()
			z.statusLine()
			z.awaitUnmute(last.sent)
			if z.bad {
				break
			}
			z.sendContent(crng, whereAfterUnmute, ckind, false, tail, false)
			tail = nil
			t := z.send() // sent after the announcement was read: must be displayed
			_ = t
		case "pre": // Ctrl+O with no output at all afterwards: ends after calm
			z.ctrlO()
		}
		if z.bad {
			break
		}
		var last time.Time
		if n := len(z.toks); n > 0 {
			last = z.toks[n-1].sent
		}
		z.mutedSuffix = ""
		z.awaitUnmute(last)
		if z.bad {
			break
		}
		// after the announcement: output is displayed again, whatever it starts with
		if kind == "gap" {
			// the first output after the announcement was sent inside the cycle; this is later output
			z.sendContent(crng, whereLater, crng.IntN(nk), crng.IntN(2) == 0, nil, false)
		} else {
			z.sendContent(crng, whereAfterUnmute, ckind, false, tail, false)
		}
		z.send()
		time.Sleep(time.Duration(50+rng.IntN(100)) * time.Millisecond)
	}
	// closing token: once it is on the terminal every earlier token that will ever be shown has been shown
	if !z.bad {
		fin := z.send()
		if _, ok := s.Wait(regexp.QuoteMeta(fin.name), 0, ProgressBound); !ok {
			z.viol("output-after-unmute-not-displayed", fmt.Sprintf("token %s sent after the un-muting announcement (or with no mute at all) was not displayed", fin.name))
			z.bad = true
		}
	}
	if !z.bad {
		z.judge(withCtrlO)
	}
	st, sig, ok := s.Quit()
	if !ok || st != 0 {
		r.Inconclusive(fmt.Sprintf("binary did not exit cleanly (status %d %s %v)", st, sig, ok))
	}
	r.Eval(1)
	r.Count("sessions", 1)
	r.Count("tokens_sent", int64(len(z.toks)))
	r.Distinct(fmt.Sprintf("%v|%v|%d", withCtrlO, kinds, len(z.toks)))
	if idx < 2 {
		r.Sample("session", map[string]any{"with_ctrl_o": withCtrlO, "cycles": kinds, "timeline": z.events})
	}
}

func (z *sess) judge(withCtrlO bool) {
	clean := z.s.P.Clean()
	pos := 0
	for _, t := range z.toks {
		if i := strings.Index(clean[pos:], t.name); i >= 0 {
			t.shown = true
			t.posAt = pos + i
			t.shownT = z.s.P.TimeOfClean(t.posAt)
			pos = t.posAt + len(t.name)
		}
		if n := strings.Count(clean, t.name); n > 1 {
			z.viol("output-duplicated", fmt.Sprintf("token %s appears %d times on the terminal", t.name, n))
		}
	}
	nshown, nsupp := 0, 0
	for i, t := range z.toks {
		if t.shown {
			nshown++
		} else {
			nsupp++
		}
		// (c)/(d): a token sent while the harness knew the terminal to be un-muted (always, in a
		// session without Ctrl+O) must be displayed; a later such token was awaited before any
		// Ctrl+O was typed, so "not displayed by now" means "never".
		if !t.shown && t.afterM < 0 {
			key := "output-while-unmuted-not-displayed"
			if !withCtrlO {
				key = "suppressed-without-ctrl-o"
			}
			z.viol(key, fmt.Sprintf("token %s was sent while un-muted but never displayed", t.name))
		}
		// (a) a suppressed token keeps the mute on for the full pause interval
		if !t.shown && t.afterM >= 0 {
			m := z.mutes[t.afterM]
			if m.ended && m.uObs.Sub(t.sent) < Pause {
				z.viol("unmuted-before-calm", fmt.Sprintf("token %s was suppressed, yet un-muting was announced %.3f s after it was sent (< %s of calm)", t.name, m.uObs.Sub(t.sent).Seconds(), Pause))
			}
		}
		// (e) displayed while the mute must still have been in force
		if t.shown && t.afterM >= 0 {
			m := z.mutes[t.afterM]
			// latest instant before which the mute certainly holds: 2 s after Ctrl+O was typed,
			// or 2 s after the previous suppressed token of this mute period was sent
			hold := m.typed.Add(Pause)
			for j := i - 1; j >= 0; j-- {
				p := z.toks[j]
				if p.afterM != t.afterM {
					break
				}
				if !p.shown {
					if h := p.sent.Add(Pause); h.After(hold) {
						hold = h
					}
					break
				}
			}
			if t.shownT.Before(hold) {
				z.viol("output-displayed-while-muted", fmt.Sprintf("token %s, sent after the muting announcement, was on the terminal %.3f s before the mute could have ended", t.name, hold.Sub(t.shownT).Seconds()))
			}
		}
	}
	// (b) status lines requested during a mute precede the announcement that ends it
	for mi, m := range z.mutes {
		if !m.ended {
			continue
		}
		for _, np := range m.notices {
			if np > m.uPos {
				// only a violation if the mute verifiably continued after the request: a later suppressed token exists
				later := false
				for _, t := range z.toks {
					if t.afterM == mi && !t.shown {
						later = true
					}
				}
				if later {
					z.viol("status-line-delayed-until-unmute", "a status line requested while muted was displayed only after the un-muting announcement")
				}
			}
		}
	}
	z.judgeContents(clean, withCtrlO)
	z.r.Count("tokens_displayed", int64(nshown))
	z.r.Count("tokens_suppressed", int64(nsupp))
}

func Run(r *mon.Run) {
	r.Rule = "real -race binary on a pty with a fake shell over raw TLS sending numbered tokens; per session several mute cycles drawn from {continuous flood with Ctrl+O in the middle, burst, gaps of 1.5 s (must stay muted), gap above 2 s (must un-mute in between), Ctrl+O before any output}, with status lines (file requests) and a repeated Ctrl+O while muted, plus sessions without any Ctrl+O. All times come from one monotonic clock in the harness: s_i just before token i is sent, typed/announcement times as read from the pty. Verdicts are sound under load: a suppressed token with un-mute announced < 2 s after s_i; a token on the terminal before (Ctrl+O typed | previous suppressed token sent) + 2 s; a token sent after the un-muting announcement was read not displayed; a status line missing; any token missing in a session without Ctrl+O; no un-mute within 2 s + 20 s of calm while a canary request is answered. Engine stalled: the program runs with -ctrl-i <0.6-2 MB file>; (preview) Ctrl+J typed while muted must display its whole log message (header and contents); (stall) during a mute the harness stops draining the pty and types Ctrl+J so that the program's write of that message blocks holding the terminal's write lock, a token is sent 1.1-1.6 s after the previous one, the calm timer expires behind the blocked write, the harness drains again 2.3-3 s after the previous token: the suppressed token keeps the mute on for 2 s after it was sent (same rule as above, send and observation times only). Engine backlog: Ctrl+O on a terminal that does not keep up with an UN-muted flood. The harness stops draining the pty (stall) or drains it in short openings (until something has been read, at most ~2 ms) every 30-70 ms (slow), a fake shell (over /io or /i+/o) sends 250-440 chunks of 0.3-1.8 kB so that the program's writes block and a backlog forms in its output queue (never more than the queue holds, so requests are always answered); at 3-6 points of the flood a status line is generated (file request or refused input connection, each requested only after the previous request was answered, i.e. after the program accepted the line for display); then Ctrl+O is typed, 1-2 more status lines are requested while the key cannot be handled yet, and the terminal drains again (at once, or in openings every 5-20 ms until the muting announcement). After the announcement a sentinel status line is requested; lines are displayed in the order accepted, so once the sentinel is on the terminal every status line requested earlier must be on the terminal too (logical, no clock) - whether it was generated before or after Ctrl+O; the mute must then end by itself and later output be displayed. Nothing is demanded of shell tokens sent before Ctrl+O (they were waiting behind the terminal when the mute began; either fate is allowed). Control sessions (nomute) do the same without Ctrl+O: every flood token and every status line must be displayed. Non-vacuity is measured: a status line answered before Ctrl+O was typed counts as queued at the mute when it is displayed after the muting announcement, and as behind shell output when a flood token sent before it was suppressed and it is displayed after every displayed flood token; floors on both, on the number of sessions with such a line, and on the number of flood tokens suppressed. Content dimension (session engine): what is displayed again is compared byte for byte, not only looked for. Right after the un-muting announcement of every mute cycle has been read the fake shell sends a piece of content (8-130 bytes, one in six 2-5 kB, in 1-2 chunks) and then the ordinary ASCII token as sentinel; the first bytes of the content run through the classes {lone continuation bytes 0x80-0xBF, bytes that never occur in UTF-8 / a lead byte without continuation, Latin-1 text, NUL and control bytes other than ESC and CR, well-formed 2-4-byte characters, ASCII} (class = f(session, cycle), every class equally often), and in every other group of 6 cycles every chunk sent during the mute ends with the first byte(s) of a multibyte character whose remaining byte(s) then come first after the announcement (the mute swallowed the head); the rest of the content mixes all classes. The terminal is read as in C03 (ptyx clean text: prompt redraws undone, CR LF read back as LF; the content contains neither ESC nor CR): the bytes between the end of the un-muting announcement line and the sentinel token, with complete status lines (timestamp [address] File requested: /status-n-n) taken out, must be exactly the bytes sent after the announcement was read (whole chunks of that mute displayed late, in order, may precede them; whether they were early is the business of the timing rules). Controls, same comparison between the previous un-muted token and the sentinel: once before the first Ctrl+O of every session, after the in-cycle un-mute of 'gap' cycles (later output), and ten times in every session without Ctrl+O (all classes, every other one with a multibyte character split across two chunks, two of them with a status line requested and awaited in the middle, which exercises the taking-out). Floors: regions compared after an un-mute = sessions with Ctrl+O x cycles, each class 1/6 of that, half of them starting with a continuation byte, tails of really swallowed heads, controls per place, regions with a status line taken out. The token schedules and every timing rule are unchanged (the content has its own PRNG stream; the sentinel is the token that was sent at that point before). Engine endmuted (the end of the session while muted, under a configuration matrix): mute cycles that end not by calm but by the program leaving. The program is started under its other documented options - none, each of -one-shell, -no-timestamps, -ctrl-i <file>, -serve-files-from <dir>, -log <file> alone, and every pair of them (configuration = index mod 16), each flag in one of the spellings -flag value / -flag=value / --flag=value (-flag / --flag / -flag=true) drawn per session; a fake shell (/io, or /i + /o where the listener stays) floods numbered tokens EM<i>_<n>; one per chunk of 30-380 bytes, unpaced or nearly; once a token has been displayed (control) Ctrl+O is typed in the flood and the muting announcement awaited; while muted and still flooding, status and log lines are generated and must be displayed: a second Ctrl+O ('Already muted'), where the listener is still there a refused input connection and (with -serve-files-from) a file request, with -ctrl-i Ctrl+J (header and whole contents of the 'Would have sent' message); then, 0.1-0.6 s later, still muted and flooding, the session ends in one of the ways (rotated by index, round and seed over those the configuration allows): Ctrl+D, Ctrl+C, under -one-shell the end of the shell (stream ended by itself or connection dropped, the last chunk sent just before) plus an entered line (entered again every 2.5 s while the program is still there, steering only: a line typed before the program has noticed the end of the shell is an ordinary line), or the shell leaving (its notice 'Shell is gone' is demanded where the program stays, i.e. without -one-shell) and then Ctrl+D. Verdict, on the complete terminal output after the program has gone, no clock: between the muting announcement and the end of the output - or the first un-muting announcement, should the flood have paused for two seconds under load - there is no flood token (key muted-output-displayed-at-exit if tokens lie after the point where the exit was asked for, else output-displayed-while-muted). Measured: every configuration (= every option and every pair), every ending, sessions judged to the very end with no un-muting announcement, chunks sent while muted, sessions whose flood was still being accepted after the exit key was typed, status lines displayed while muted, Ctrl+J messages displayed while muted; 'Goodbye.' is only counted. Engine calm (the length of the calm; concurrent with the sessions): the fake shell does not wait for the un-muting announcement. 3 mute cycles per session; after Ctrl+O muted chunks are sent at scripted offsets from the key press - the last one at +0.3, +0.9, +1.0, +1.5, +1.9 s (+-20 ms; every other case with an earlier chunk as well) or as the last of 3-5 chunks 0.15-0.45 s apart - then the shell is silent for 2.6, 3.0 or 3.4 s (cycle ordinal rotated by a draw of the seed: every phase meets every gap equally often, all 18 combinations at quick) and sends a recognisable chunk (the probe) without having awaited anything. By then no shell output has arrived for more than the pause interval, so the mute must have ended by itself: the un-muting announcement stands on the terminal before the probe and the probe is displayed (read once a closing token, sent after the announcement was read, is on the terminal). The harness measures when it really sent each chunk; the gap judged is the measured one (return of the last muted send to the start of the probe's send, never shorter than scripted; only >= 2.5 s is judged), its own scheduling delay is reported (extra calm_harness_send_delay_max_s). Real-time verdict, hence two steps: a cycle whose probe was swallowed (or displayed with no announcement before it) is a suspect; after everything else has finished each suspect is run again ALONE, as a session of its own with the same chunk offsets and the gap widened to 3.6 s, and only a deviation there is a violation (mute-outlasts-calm / mute-ended-without-announcement; at most 2 are confirmed, further suspects are counted); a suspect that does not show again alone is counted (calm_suspects_not_reproduced_alone) and not judged. The general token rules (nothing displayed while the mute must hold, no un-mute < 2 s after a suppressed chunk) apply to these sessions as well. Floors: sessions, cycles, probes displayed after the announcement >= 2/3 of the cycles and >= 2/3 of the cycles of every phase and of every gap, muted chunks really suppressed >= cycles. distinct = distinct (cycle kinds, token count) sessions; all sessions are non-trivial (>= 4 tokens)"
	r.Assumptions = []string{"real-time monitoring only: gaps within 0.4 s of the 2 s boundary are not generated", "observation time >= real time, send start <= arrival time", "calm engine: a chunk reaches the program's mute bookkeeping soon after the harness's send has returned (loopback TLS); where load delays that, or the program's timer, by more than the margin (0.6-1.4 s among the concurrent sessions, 1.6 s alone) the cycle deviates, which is why a deviation counts only when it shows again in a session run alone with a 3.6 s gap; a defect that delays un-muting by less than 1.6 s beyond the pause interval at every phase is therefore not reported by this engine", "content dimension: the line editor writes shell output to the terminal as it is except LF -> CR LF, and takes the prompt away and redraws it around each write with cursor-left/erase sequences that ptyx's clean text undoes (the reading C03's byte-exact engine relies on); ESC and CR are never sent", "endmuted engine: a flood token is a token of the session's own numbered flood; the muting announcement is written after the mute flag is set (opshell as written), so nothing the shell sent can follow it on the terminal before an un-muting announcement; an un-muting announcement before the end (flood starved for 2 s by load) only shortens the judged region and is counted, it is never a verdict; exit status and 'Goodbye.' are C20's business (a non-clean exit is inconclusive here)", "backlog engine: a request is answered only after its handler has handed the status line to the operator channel, and that channel is first-in first-out (both true of hsrv/iobroker/opshell as written); the size of the backlog that really forms is not assumed but measured (floors)"}
	bin, err := crs.Build(r.Work, "")
	if err != nil {
		r.Inconclusive("cannot build the binary: " + err.Error())
		return
	}
	n := r.N(8, 32)
	// engine endmuted runs at the same time as the sessions (both are real-time; their verdicts do not depend on load)
	nem := r.N(16, 48)
	var emwg sync.WaitGroup
	emwg.Add(1)
	go func() {
		defer emwg.Done()
		mon.Parallel(nem, 16, func(i int) {
			if r.Want("endmuted", i) {
				runEndMuted(r, bin, i)
			}
		})
	}()
	// engine calm runs at the same time too (real-time; a deviation there is only a suspect until confirmed alone, below)
	calm := &calmEngine{n: r.N(6, 18)}
	emwg.Add(1)
	go func() {
		defer emwg.Done()
		calm.run(r, bin)
	}()
	mon.Parallel(n, n, func(i int) {
		if r.Want("session", i) {
			runSession(r, bin, i, i%4 != 3)
		}
	})
	emwg.Wait()
	emFloors(r, nem)
	nlo := r.N(6, 24)
	mon.Parallel(nlo, nlo, func(i int) {
		if r.Want("lockorder", i) {
			runLockOrder(r, bin, i)
		}
	})
	r.Floor("lockorder_sessions", int64(nlo))
	nst := r.N(4, 16)
	mon.Parallel(nst, nst, func(i int) {
		if r.Want("stalled", i) {
			runStalled(r, bin, i)
		}
	})
	r.Floor("stalled_sessions", int64(nst))
	r.Floor("stalls", int64(nst))
	r.Floor("previews_displayed_while_muted", int64(nst))
	nbl := r.N(6, 24)
	mon.Parallel(nbl, nbl, func(i int) {
		if r.Want("backlog", i) {
			runBacklog(r, bin, i)
		}
	})
	r.Floor("backlog_sessions", int64(nbl))
	nblMute := int64(nbl - nbl/6) // sessions with Ctrl+O (index%6 != 3)
	r.Floor("backlog_nomute_sessions", int64(nbl/6))
	r.Floor("backlog_sessions_with_queued_status", (nblMute*3+4)/5) // a backlog with status lines in it really formed in most sessions
	r.Floor("backlog_status_lines_behind_shell_output", 2*((nblMute*3+4)/5))
	r.Floor("backlog_status_lines_queued_at_mute", (nblMute*3+4)/5)
	r.Floor("backlog_tokens_suppressed", 60*nblMute)
	nrp := r.N(4, 16)
	var suspects []int
	var smu sync.Mutex
	mon.Parallel(nrp, nrp, func(i int) {
		if !r.Want("repeat", i) {
			return
		}
		switch v := runRepeat(r, bin, i, ""); v {
		case "":
			r.Eval(1)
			r.Distinct(fmt.Sprintf("repeat|%d", i))
		case "inconclusive":
			r.Inconclusive("repeat-Ctrl+O session could not be judged (load or start-up problem)")
		default:
			smu.Lock()
			suspects = append(suspects, i)
			smu.Unlock()
		}
	})
	for _, i := range suspects { // a fired real-time bound is confirmed alone, with nothing else running
		v := runRepeat(r, bin, i, "-alone")
		if v != "" && v != "inconclusive" {
			r.Violate("repeat", i, "mute-extended-by-repeated-ctrl-o", v, nil)
		} else {
			r.Inconclusive("a repeat-Ctrl+O overrun did not reproduce when run alone")
		}
		r.Eval(1)
	}
	r.Floor("repeat_cycles", int64(nrp))
	// engine calm: suspects are confirmed now that nothing else runs
	calm.confirm(r, bin)
	calm.floors(r)
	calmCycles := int64(calm.n * calmCyclesPerSession)
	// content dimension
	nCtl := int64(n / 4)             // sessions without Ctrl+O (index%4 == 3)
	nMute := int64(n) - nCtl         // sessions with Ctrl+O
	nPts := nMute * int64(r.N(2, 6)) // mute cycles = places where content is the first output after an un-mute
	r.Floor("content:"+whereAfterUnmute, nPts)
	for _, k := range contentKinds {
		r.Floor("content_after_unmute:"+k, nPts/int64(len(contentKinds)))
	}
	r.Floor("content_after_unmute_starting_with_continuation_byte", nPts/2)
	r.Floor("content_after_unmute_tail_of_swallowed_character", int64(r.N(1, 20)))
	r.Floor("content:"+whereBeforeMute, nMute)
	r.Floor("content:"+whereNoCtrlO, 10*nCtl)
	r.Floor("content_regions_with_status_line_taken_out", 2*nCtl)
	r.Floor("content_regions_compared", nPts+nMute+10*nCtl)
	r.Floor("content_bytes_compared", 20*(nPts+nMute+10*nCtl))
	r.Floor("sessions", int64(n))
	r.Floor("mute_periods", int64(n)+calmCycles)
	r.Floor("tokens_suppressed", 20+calmCycles)  // the calm engine's muted chunks are counted here too
	r.Floor("tokens_displayed", 50+3*calmCycles) // so are its un-muted token, probe and closing token per cycle
	r.Floor("status_lines_while_muted", 3)
}

package c19

import (
	"fmt"
	"os"
	"path/filepath"
	"regexp"
	"sort"
	"strings"
	"sync"
	"sync/atomic"
	"time"

	"github.com/magisterquis/curlrevshell/verifharness/mon"
	"github.com/magisterquis/curlrevshell/verifharness/mon/crs"
	"github.com/magisterquis/curlrevshell/verifharness/mon/hk"
)

// Engine endmuted: THE END OF THE SESSION WHILE MUTED, under a configuration
// matrix.
//
// The other engines end every mute by calm and leave with Ctrl+D at a quiet
// prompt.  Here the mute cycle ends because the program leaves - Ctrl+D,
// Ctrl+C, under -one-shell the end of the shell plus an entered line - while
// the fake shell is STILL FLOODING, or because the shell leaves while muted
// (then Ctrl+D).  The statement has no exception for the way out: "while
// output is muted, bytes from the remote shell are not written to the
// terminal but every status and log line still is".  So from the muting
// announcement to the end of the terminal output (or to an un-muting
// announcement, should the flood have paused for two seconds under load) no
// flood token may be on the terminal, and the status lines generated while
// muted must be.
//
// The program runs under its other documented options, each alone and in
// pairs (drawn by index): -one-shell, -no-timestamps, -ctrl-i (with Ctrl+J
// typed while muted), -serve-files-from, -log, in the flag spellings the flag
// package accepts.  The oracle is the same in every cell.

var emOptions = []string{"one-shell", "no-timestamps", "ctrl-i", "serve-files-from", "log"}

const (
	endCtrlD    = "ctrl-d"
	endCtrlC    = "ctrl-c"
	endOneShell = "one-shell-end+line" // the shell ends (-one-shell), the line reader is released by an entered line
	endLeaves   = "shell-leaves+ctrl-d"
)

type emCase struct {
	opts   []string // sorted subset of emOptions, at most two
	ending string
}

func (c emCase) has(o string) bool {
	for _, x := range c.opts {
		if x == o {
			return true
		}
	}
	return false
}

func (c emCase) cfg() string {
	if len(c.opts) == 0 {
		return "default"
	}
	return strings.Join(c.opts, "+")
}

// emConfigs: default, every option alone, every pair.
func emConfigs() [][]string {
	cfgs := [][]string{nil}
	for _, o := range emOptions {
		cfgs = append(cfgs, []string{o})
	}
	for a := 0; a < len(emOptions); a++ {
		for b := a + 1; b < len(emOptions); b++ {
			cfgs = append(cfgs, []string{emOptions[a], emOptions[b]})
		}
	}
	return cfgs
}

// emPlan is the deterministic case list: configuration = index mod 16, way of
// ending rotated by index, round and seed over the endings the configuration
// allows (the end of the shell only ends the program under -one-shell).
func emPlan(seed int64, i int) emCase {
	cfgs := emConfigs()
	c := emCase{opts: cfgs[i%len(cfgs)]}
	ends := []string{endCtrlD, endCtrlC, endLeaves}
	if c.has("one-shell") {
		ends = []string{endOneShell, endCtrlD, endLeaves, endCtrlC}
	}
	rot := int(seed%1000) + i + i/len(cfgs)
	c.ending = ends[rot%len(ends)]
	return c
}

// emFloors sets the floors of the engine from the plan itself.
func emFloors(r *mon.Run, n int) {
	want := map[string]int64{}
	var keyExits, ctrlJ int64
	for i := 0; i < n; i++ {
		c := emPlan(r.Seed, i)
		want["endmuted_config:"+c.cfg()]++
		for _, o := range c.opts {
			want["endmuted_option:"+o]++
		}
		want["endmuted_ending:"+c.ending]++
		if c.ending == endCtrlD || c.ending == endCtrlC {
			keyExits++
		}
		if c.has("ctrl-i") {
			ctrlJ++
		}
	}
	names := make([]string, 0, len(want))
	for k := range want {
		names = append(names, k)
	}
	sort.Strings(names)
	for _, k := range names {
		r.Floor(k, want[k])
	}
	r.Floor("endmuted_sessions", int64(n))
	r.Floor("endmuted_flood_seen_before_mute", int64(n))            // the tokens are recognisable on this terminal when nothing is muted
	r.Floor("endmuted_judged_to_the_end_while_muted", int64(n-n/4)) // no un-muting announcement before the end: the program really left while muted
	r.Floor("endmuted_chunks_sent_while_muted", 20*int64(n))        // the flood went on during the mute
	r.Floor("endmuted_sessions_flooding_at_exit", (keyExits+1)/2)   // chunks were still being accepted after Ctrl+D / Ctrl+C had been typed
	r.Floor("endmuted_status_lines_while_muted", 2*int64(n))        // 'Already muted' + at least one more (request / Ctrl+J / second 'Already muted')
	r.Floor("endmuted_ctrl_j_messages_displayed_while_muted", ctrlJ)
	r.Floor("endmuted_exits", int64(n))
}

// emFrom is the offset from which a line that is about to be written is looked
// for.  The clean terminal text ends with the prompt, which the program takes
// away (cursor left + erase) before it writes anything: the text first gets
// shorter by the prompt, and under -no-timestamps the awaited words are the very
// first bytes of the new line, i.e. they begin BEFORE the length read now.  All
// patterns awaited here are longer than the margin, so nothing already on the
// terminal can match from inside it.
func emFrom(s *crs.Session) int { return max(0, s.P.CleanLen()-8) }

var neverRe = regexp.MustCompile(`\x00never\x00`)

func runEndMuted(r *mon.Run, bin string, idx int) {
	rng := r.Rng("endmuted", idx)
	c := emPlan(r.Seed, idx)
	home := filepath.Join(r.Work, fmt.Sprintf("em%d", idx))
	os.MkdirAll(home, 0o755)
	oneShell := c.has("one-shell")

	// flag spellings the flag package documents: -flag value, -flag=value, --flag=value / -flag, --flag, -flag=true
	val := func(name, v string) []string {
		switch rng.IntN(3) {
		case 0:
			return []string{"-" + name, v}
		case 1:
			return []string{"-" + name + "=" + v}
		}
		return []string{"--" + name + "=" + v}
	}
	boolean := func(name string) []string {
		return []string{[]string{"-" + name, "--" + name, "-" + name + "=true"}[rng.IntN(3)]}
	}
	args := []string{"-listen-address", "127.0.0.1:0", "-tls-certificate-cache", ""}
	var fdir, lastLine string
	for _, o := range c.opts {
		switch o {
		case "one-shell":
			args = append(args, boolean("one-shell")...)
		case "no-timestamps":
			args = append(args, boolean("no-timestamps")...)
		case "ctrl-i":
			src := filepath.Join(home, "insert.txt")
			var sb strings.Builder
			nl := 20 + rng.IntN(200)
			for i := 0; i < nl; i++ {
				fmt.Fprintf(&sb, "CJ%d-%04d insert-source-line\n", idx, i)
			}
			lastLine = fmt.Sprintf("CJ%d-%04d ", idx, nl-1)
			if err := os.WriteFile(src, []byte(sb.String()), 0o644); err != nil {
				r.Inconclusive(err.Error())
				return
			}
			args = append(args, val("ctrl-i", src)...)
		case "serve-files-from":
			fdir = filepath.Join(home, "files")
			os.MkdirAll(fdir, 0o755)
			os.WriteFile(filepath.Join(fdir, "a.txt"), []byte("served\n"), 0o644)
			args = append(args, val("serve-files-from", fdir)...)
		case "log":
			args = append(args, val("log", filepath.Join(home, "session.json"))...)
		}
	}
	s, err := crs.Start(bin, home, args...)
	if err != nil {
		r.Inconclusive("endmuted: binary did not start with " + strings.Join(args, " ") + ": " + err.Error())
		return
	}
	defer s.Close()
	z := &sess{r: r, idx: 5000 + idx, s: s, t0: time.Now(), eng: "endmuted", eidx: idx, fdir: fdir}
	z.ev("configuration %s (%s), ending %s", c.cfg(), strings.Join(args[4:], " "), c.ending)

	// the fake shell: /io, or /i + /o (not under -one-shell, whose listener goes away with the first connection)
	attach := "io"
	if !oneShell && rng.IntN(2) == 0 {
		attach = "i+o"
	}
	var closers []func()
	if attach == "io" {
		io, err := crs.OpenIO(s.Addr)
		if err != nil {
			r.Inconclusive(err.Error())
			return
		}
		z.in, z.out = io.In, io.Out
		closers = append(closers, io.Close)
	} else {
		id := fmt.Sprintf("em%d", idx)
		if z.in, err = crs.OpenIn(s.Addr, "/i/"+id); err != nil {
			r.Inconclusive(err.Error())
			return
		}
		closers = append(closers, z.in.Close)
		if _, ok := s.Wait(`Input connected`, 0, crs.Bound); !ok {
			r.Inconclusive("endmuted: fake shell did not attach")
			z.in.Close()
			return
		}
		if z.out, err = crs.OpenOut(s.Addr, "/o/"+id); err != nil {
			r.Inconclusive(err.Error())
			z.in.Close()
			return
		}
		closers = append(closers, z.out.Close)
	}
	var closeOnce sync.Once
	closeShell := func() {
		closeOnce.Do(func() {
			for _, f := range closers {
				f()
			}
		})
	}
	defer closeShell()
	if _, ok := s.Wait(`Shell is ready`, 0, crs.Bound); !ok {
		r.Inconclusive("endmuted: fake shell did not attach")
		return
	}

	// the flood: numbered, recognisable tokens, one per chunk, as fast as the program takes them (or nearly)
	tokRe := regexp.MustCompile(fmt.Sprintf(`EM%d_\d+;`, idx))
	pad := strings.Repeat("muted-flood-", 2+rng.IntN(30))
	pace := []time.Duration{0, 0, 200 * time.Microsecond, time.Millisecond}[rng.IntN(4)]
	var nSent atomic.Int64
	stop := make(chan struct{})
	done := make(chan struct{})
	go func() {
		defer close(done)
		for n := 1; ; n++ {
			select {
			case <-stop:
				return
			default:
			}
			if z.out.Send(fmt.Sprintf("EM%d_%d;%s\n", idx, n, pad)) != nil {
				return
			}
			nSent.Store(int64(n))
			if pace > 0 {
				time.Sleep(pace)
			}
		}
	}()
	var stopOnce sync.Once
	stopFlood := func() {
		stopOnce.Do(func() { close(stop) })
		select {
		case <-done:
		case <-time.After(crs.Bound + 5*time.Second): // a send is bounded by crs.Bound
		}
	}
	defer func() { closeShell(); stopFlood() }()

	// un-muted: the flood is displayed (control: the oracle can see the tokens)
	if _, ok := s.P.WaitFor(tokRe, 0, ProgressBound); !ok {
		z.viol("suppressed-without-ctrl-o", "a flood of shell output with no Ctrl+O typed: no token displayed")
		return
	}
	r.Count("endmuted_flood_seen_before_mute", 1)
	time.Sleep(time.Duration(80+rng.IntN(250)) * time.Millisecond)

	// Ctrl+O in the flood
	from := emFrom(s)
	s.Ctrl('O')
	z.ev("Ctrl+O typed in the flood (%d chunks sent)", nSent.Load())
	if _, ok := s.P.WaitFor(muteRe, from, ProgressBound); !ok {
		z.viol("ctrl-o-not-announced", "Ctrl+O typed in a flood printed no muting announcement")
		return
	}
	nAtMute := nSent.Load()
	z.ev("muting announced (%d chunks sent)", nAtMute)
	r.Count("mute_periods", 1)

	// status and log lines while muted and flooding
	nStatus := 0
	already := func() {
		f := emFrom(s)
		s.Ctrl('O')
		loc, ok := s.P.WaitFor(muteRe, f, ProgressBound)
		if !ok {
			z.viol("ctrl-o-not-announced", "a second Ctrl+O while muted and flooding was not answered")
			z.bad = true
			return
		}
		if strings.HasPrefix(s.P.Clean()[loc[0]:], "Already") {
			nStatus++
			r.Count("ctrl_o_while_muted", 1)
		}
		// otherwise the flood paused for 2 s (load) and a new mute began: the un-muting announcement in between ends the judged region
	}
	request := func(target, pat string) {
		f := emFrom(s)
		res, err := hk.Get(s.Addr, "", "x", target)
		if err != nil || res == nil {
			r.Inconclusive(fmt.Sprintf("endmuted: request %s was not answered (%v)", target, err))
			z.bad = true
			return
		}
		if _, ok := s.Wait(pat, f, ProgressBound); !ok {
			z.viol("status-line-suppressed", fmt.Sprintf("the notice for request %s, made while muted and flooding, was not displayed", target))
			z.bad = true
			return
		}
		nStatus++
	}
	time.Sleep(time.Duration(50+rng.IntN(200)) * time.Millisecond)
	already()
	if !z.bad && !oneShell {
		id := fmt.Sprintf("intruder-em%d-x", idx)
		request("/i/"+id, `Rejected [^\n]*`+regexp.QuoteMeta(`"`+id+`"`))
	}
	if !z.bad && !oneShell && fdir != "" {
		request(fmt.Sprintf("/em-%d.txt", idx), fmt.Sprintf(`File requested: /em-%d\.txt`, idx))
	}
	if !z.bad && c.has("ctrl-i") {
		f := emFrom(s)
		s.Type("\n") // Ctrl+J
		z.ev("Ctrl+J typed while muted and flooding")
		hdr, ok := s.Wait(`Would have sent the following \d+ bytes`, f, ProgressBound)
		if !ok {
			z.viol("log-line-suppressed-while-muted", "Ctrl+J typed while muted: the 'Would have sent' message was not displayed")
			z.bad = true
		} else if _, ok := s.Wait(regexp.QuoteMeta(lastLine), hdr[0], ProgressBound); !ok {
			z.viol("log-line-suppressed-while-muted", "Ctrl+J typed while muted: the header was displayed but the contents of the message were not")
			z.bad = true
		} else {
			nStatus++
			r.Count("endmuted_ctrl_j_messages_displayed_while_muted", 1)
		}
	}
	if !z.bad && nStatus < 2 {
		already()
	}
	if z.bad {
		return
	}
	time.Sleep(time.Duration(100+rng.IntN(500)) * time.Millisecond)

	// the end
	nAtEnd := nSent.Load()
	exitPos := s.P.CleanLen()
	abrupt := rng.IntN(2) == 0
	leave := func() {
		stopFlood() // the last chunk went out just now
		if !abrupt && attach == "io" {
			z.out.End()
			z.ev("the shell's stream ended by itself (%d chunks sent)", nSent.Load())
			return
		}
		closeShell()
		z.ev("the shell's connection(s) dropped (%d chunks sent)", nSent.Load())
	}
	var st int
	var sig string
	var exited bool
	switch c.ending {
	case endCtrlD, endCtrlC:
		key := byte('D')
		if c.ending == endCtrlC {
			key = 'C'
		}
		s.Ctrl(key)
		z.ev("Ctrl+%c typed while muted and flooding (%d chunks sent)", key, nAtEnd)
		st, sig, exited = s.P.WaitExit(crs.Bound)
	case endOneShell:
		leave()
		// steering only: under -one-shell the line reader cannot be interrupted, the program goes once a line is entered
		// (a line entered before the program has noticed the end of the shell is consumed as an ordinary line, so
		// another one is entered every 2.5 s until the program has gone, 30 s at most)
		wait := time.Duration(200+rng.IntN(600)) * time.Millisecond
		for tries := 0; ; tries++ {
			if st, sig, exited = s.P.WaitExit(wait); exited || tries >= 12 {
				break
			}
			s.Type("\r")
			z.ev("line entered")
			r.Count("endmuted_one_shell_lines_entered", 1)
			wait = 2500 * time.Millisecond
		}
	case endLeaves:
		leave()
		if !oneShell {
			// the program stays: the notice is a status line generated while muted
			if _, ok := s.Wait(`Shell is gone`, max(0, exitPos-8), ProgressBound); !ok {
				z.viol("status-line-suppressed", "the shell left while muted: its notice ('Shell is gone') was not displayed")
				return
			}
			nStatus++
		} else {
			s.P.WaitExit(time.Duration(100+rng.IntN(400)) * time.Millisecond)
		}
		s.Ctrl('D')
		z.ev("Ctrl+D typed")
		st, sig, exited = s.P.WaitExit(crs.Bound)
	}
	nFinal := nSent.Load()
	closeShell()
	stopFlood()
	if !exited {
		r.Inconclusive(fmt.Sprintf("endmuted %d (%s, %s): the program did not exit within %s; terminal ends %q", idx, c.cfg(), c.ending, crs.Bound, tail(s.P.Clean(), 300)))
		return
	}
	if st != 0 || sig != "" {
		r.Inconclusive(fmt.Sprintf("endmuted %d (%s, %s): binary did not exit cleanly (status %d %s)", idx, c.cfg(), c.ending, st, sig))
	}
	s.P.WaitFor(neverRe, 0, 3*time.Second) // returns at the end of the terminal's output
	r.Count("endmuted_exits", 1)

	// the verdict: no clock, only what is on the terminal after the muting announcement
	clean := s.P.Clean()
	mPos := strings.Index(clean, "Muting until")
	if mPos < 0 {
		r.Inconclusive("endmuted: the muting announcement is no longer on the terminal")
		return
	}
	region := clean[mPos:]
	toEnd := true
	if u := strings.Index(region, "Unmuting"); u >= 0 {
		// the flood paused for the pause interval (load, or the shell left and the exit took long): later output is not muted
		region, toEnd = region[:u], false
		r.Count("endmuted_unmuted_before_the_end", 1)
	}
	if locs := tokRe.FindAllStringIndex(region, -1); len(locs) > 0 {
		atExit := 0
		for _, l := range locs {
			if mPos+l[0] >= exitPos-64 {
				atExit++
			}
		}
		first := region[locs[0][0]:locs[0][1]]
		last := region[locs[len(locs)-1][0]:locs[len(locs)-1][1]]
		if atExit > 0 {
			z.viol("muted-output-displayed-at-exit", fmt.Sprintf("%d tokens of the muted flood (%s ... %s) are on the terminal after the muting announcement with no un-muting announcement before them, %d of them after the program had been asked to leave (%s) under %s: muted shell output was written on the way out", len(locs), first, last, atExit, c.ending, c.cfg()))
		} else {
			z.viol("output-displayed-while-muted", fmt.Sprintf("%d tokens of the flood (%s ... %s) are on the terminal after the muting announcement with no un-muting announcement before them (%s)", len(locs), first, last, c.cfg()))
		}
	}
	if toEnd {
		r.Count("endmuted_judged_to_the_end_while_muted", 1)
	}
	if strings.Contains(clean[mPos:], "Goodbye.") {
		r.Count("endmuted_goodbye_displayed", 1)
	}
	r.Eval(1)
	r.Count("endmuted_sessions", 1)
	r.Count("endmuted_config:"+c.cfg(), 1)
	for _, o := range c.opts {
		r.Count("endmuted_option:"+o, 1)
	}
	r.Count("endmuted_ending:"+c.ending, 1)
	r.Count("endmuted_attach:"+attach, 1)
	r.Count("endmuted_chunks_sent_while_muted", nAtEnd-nAtMute)
	r.Count("endmuted_status_lines_while_muted", int64(nStatus))
	r.Count("status_lines_while_muted", int64(nStatus))
	if (c.ending == endCtrlD || c.ending == endCtrlC) && nFinal > nAtEnd {
		r.Count("endmuted_sessions_flooding_at_exit", 1)
		r.Count("endmuted_chunks_sent_after_exit_key", nFinal-nAtEnd)
	}
	r.Distinct(fmt.Sprintf("endmuted|%s|%s|%s|%v", c.cfg(), c.ending, attach, abrupt))
	if idx < 2 {
		r.Sample("endmuted", map[string]any{"configuration": c.cfg(), "args": args, "ending": c.ending, "attach": attach, "timeline": z.events})
	}
}

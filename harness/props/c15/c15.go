// Package c15: uuencode is Perl-compatible and round-trips; decoding is total
// and pure.  Runtime monitoring of lib/uu against a live perl oracle, with
// guard pages watching the argument slices.
package c15

import (
	"bytes"
	"errors"
	"fmt"
	"math/rand/v2"
	"os"
	"runtime"
	"runtime/debug"
	"strings"
	"syscall"
	"time"

	"github.com/magisterquis/curlrevshell/lib/uu"
	"github.com/magisterquis/curlrevshell/verifharness/mon"
)

const Level = "exploration"

// refEncode is the harness's own uuencoder, written from the format
// description (not from lib/uu), used where calling perl per case is too slow.
func refEncode(src []byte) []byte {
	var out []byte
	e := func(b byte) byte {
		b &= 0x3f
		if b == 0 {
			return '`'
		}
		return b + 32
	}
	for len(src) > 0 {
		n := len(src)
		if n > 45 {
			n = 45
		}
		line := src[:n]
		src = src[n:]
		out = append(out, byte(32+n))
		for i := 0; i < n; i += 3 {
			var g [3]byte
			copy(g[:], line[i:])
			out = append(out, e(g[0]>>2), e(g[0]<<4|g[1]>>4), e(g[1]<<2|g[2]>>6), e(g[2]))
		}
		out = append(out, '\n')
	}
	return out
}

func short(b []byte) string {
	if len(b) > 48 {
		return fmt.Sprintf("%q…(%d bytes)", b[:48], len(b))
	}
	return fmt.Sprintf("%q", b)
}

// Run is the parent: it farms the exhaustive enumeration out to the plain
// (non-race) binary and runs the rest under the race detector / checkptr.
func Run(r *mon.Run) {
	r.Rule = "cases: (1) every one of the 2^24 three-byte groups, encoded alone and as a 48 MiB concatenation, compared with perl pack/unpack and the harness reference encoder; every final-line fill 0..45 x {zero,0xFF,random,0x60} and every total length 0..4096 against perl; (2) random/adversarial contents up to 1 MiB against perl; (3) decoder totality on mutated encodings and random text under recover, in child processes; (4) purity with read-only/guard-page mappings and canaries. distinct_nontrivial counts distinct input byte strings (hash) that are non-empty; enumerated groups/fills/lengths are distinct by construction"
	r.Assumptions = []string{"perl 5.36 pack('u')/unpack('u') is the reference", "mprotect faults are turned into panics by debug.SetPanicOnFault", "decoder cases are sampled, only the group/fill/length spaces are enumerated completely"}

	if r.WantEngine("groups") {
		plain := os.Getenv("VCHECK_PLAIN")
		to := 15 * time.Minute
		res, err := r.RunChild(plain, "c15groups", to)
		if err != nil {
			r.Violate("groups", 0, "groups-child-died", fmt.Sprintf("exhaustive group child died: %v; stderr tail: %s", err, tail(res.Stderr)), nil)
		}
	}
	if r.WantEngine("fills") {
		fills(r)
	}
	if r.WantEngine("random") {
		random(r)
	}
	if r.WantEngine("decoder") {
		decoder(r)
	}
	if r.WantEngine("purity") {
		purity(r)
	}
	r.Floor("perl_pack_comparisons", 100)
	r.Floor("decoder_inputs", 1000)
	r.Floor("guarded_calls", 100)
	r.Floor("groups_encoded", 1<<24)
}

func tail(b []byte) string {
	if len(b) > 600 {
		b = b[len(b)-600:]
	}
	return string(b)
}

// ChildGroups enumerates all 2^24 groups (plain build, for speed).
func ChildGroups(args []string) int {
	r, dump, _ := mon.ChildRun(args, Level)
	groups(r)
	if err := r.DumpChild(dump); err != nil {
		fmt.Fprintln(os.Stderr, err)
		return 2
	}
	return 0
}

func groups(r *mon.Run) {
	pp, err := mon.NewPerlPacker()
	if err != nil {
		r.Inconclusive("perl oracle unavailable: " + err.Error())
		return
	}
	defer pp.Close()
	const N = 1 << 24
	data := make([]byte, 0, 3*N)
	single := make([]byte, 0, 6*N)
	var g [3]byte
	nviol := 0
	alpha := map[byte]bool{}
	for i := 0; i < N; i++ {
		g[0], g[1], g[2] = byte(i>>16), byte(i>>8), byte(i)
		data = append(data, g[:]...)
		before := len(single)
		single = uu.AppendEncode(single, g[:])
		enc := single[before:]
		want := refEncode(g[:])
		if !bytes.Equal(enc, want) {
			if nviol < 5 {
				r.Violate("groups", i, fmt.Sprintf("encode-group-%06x", i), fmt.Sprintf("AppendEncode(%x) = %q, reference %q", g, enc, want), nil)
			}
			nviol++
		}
		for _, c := range enc {
			alpha[c] = true
		}
		dec, err := uu.AppendDecode(nil, enc)
		if err != nil || !bytes.Equal(dec, g[:]) {
			if nviol < 5 {
				r.Violate("groups", i, fmt.Sprintf("decode-group-%06x", i), fmt.Sprintf("AppendDecode(AppendEncode(%x)) = %x, %v", g, dec, err), nil)
			}
			nviol++
		}
	}
	r.Eval(N)
	r.DistinctBulk(N)
	r.Count("groups_encoded", N)
	r.Count("alphabet_chars_seen_in_group_encodings", int64(len(alpha)))
	r.Sample("group", map[string]string{"input_hex": "000000", "encoded": string(refEncode([]byte{0, 0, 0}))})

	// The 48 MiB concatenation, once through perl each way.
	enc := uu.AppendEncode(nil, data)
	penc, err := pp.Pack(data)
	if err != nil {
		r.Inconclusive("perl pack of 48 MiB failed: " + err.Error())
		return
	}
	r.Count("perl_pack_comparisons", 1)
	r.Count("perl_bytes_compared", int64(len(penc)))
	if !bytes.Equal(enc, penc) {
		i := firstDiff(enc, penc)
		r.Violate("groups", -1, "encode-concat-vs-perl", fmt.Sprintf("AppendEncode of all groups differs from perl pack at encoded offset %d: ours %s perl %s", i, short(enc[i:]), short(penc[i:])), nil)
	}
	if ml := uu.MaxEncodedLen(data); ml < len(enc) {
		r.Violate("groups", -1, "maxencodedlen-concat", fmt.Sprintf("MaxEncodedLen=%d < actual %d", ml, len(enc)), nil)
	}
	pdec, err := pp.Unpack(enc)
	if err == nil {
		r.Count("perl_unpack_comparisons", 1)
		if !bytes.Equal(pdec, data) {
			r.Violate("groups", -1, "perl-unpack-concat", fmt.Sprintf("perl unpack of our encoding differs at %d", firstDiff(pdec, data)), nil)
		}
	}
	dec, err := uu.AppendDecode(nil, enc)
	if err != nil || !bytes.Equal(dec, data) {
		r.Violate("groups", -1, "decode-concat", fmt.Sprintf("AppendDecode of all groups: err=%v firstdiff=%d", err, firstDiff(dec, data)), nil)
	}
	if ml := uu.MaxDecodedLen(enc); ml < len(dec) {
		r.Violate("groups", -1, "maxdecodedlen-concat", fmt.Sprintf("MaxDecodedLen=%d < actual %d", ml, len(dec)), nil)
	}
	// every group as a line of its own, unpacked by perl in one go
	psingle, err := pp.Unpack(single)
	if err == nil {
		r.Count("perl_unpack_comparisons", 1)
		if !bytes.Equal(psingle, data) {
			r.Violate("groups", -1, "perl-unpack-single-lines", fmt.Sprintf("perl unpack of per-group lines differs at %d", firstDiff(psingle, data)), nil)
		}
	}
	r.Exhaustive(true)
}

func firstDiff(a, b []byte) int {
	n := len(a)
	if len(b) < n {
		n = len(b)
	}
	for i := 0; i < n; i++ {
		if a[i] != b[i] {
			return i
		}
	}
	return n
}

// checkOne compares one input against perl and checks round trip and bounds.
func checkOne(r *mon.Run, pp *mon.PerlPacker, engine string, idx int, src []byte, prefix []byte) {
	r.Eval(1)
	if len(src) > 0 {
		r.Distinct(string(src))
	}
	keep := bytes.Clone(src)
	dst := append(make([]byte, 0, len(prefix)+8), prefix...)
	enc := uu.AppendEncode(dst, src)
	if !bytes.Equal(src, keep) {
		r.Violate(engine, idx, "encode-modifies-src", fmt.Sprintf("AppendEncode modified its source (len %d)", len(src)), map[string]any{"src": short(keep)})
	}
	if !bytes.HasPrefix(enc, prefix) {
		r.Violate(engine, idx, "encode-prefix", "AppendEncode changed the existing contents of dst", map[string]any{"src": short(keep)})
		return
	}
	body := enc[len(prefix):]
	want, err := pp.Pack(src)
	if err != nil {
		r.Inconclusive("perl: " + err.Error())
		return
	}
	r.Count("perl_pack_comparisons", 1)
	if !bytes.Equal(body, want) {
		i := firstDiff(body, want)
		r.Violate(engine, idx, fmt.Sprintf("encode-vs-perl-len%d", len(src)), fmt.Sprintf("AppendEncode differs from perl pack('u') for a %d-byte input at encoded offset %d: ours %s perl %s", len(src), i, short(body[i:]), short(want[i:])), map[string]any{"src_hex": fmt.Sprintf("%x", trunc(src, 256))})
	}
	if ml := uu.MaxEncodedLen(src); ml < len(body) {
		r.Violate(engine, idx, fmt.Sprintf("maxencodedlen-len%d", len(src)), fmt.Sprintf("MaxEncodedLen=%d < actual %d for %d-byte input", ml, len(body), len(src)), nil)
	}
	// round trips
	encKeep := bytes.Clone(body)
	dec, err := uu.AppendDecode(bytes.Clone(prefix), body)
	if !bytes.Equal(body, encKeep) {
		r.Violate(engine, idx, "decode-modifies-src", "AppendDecode modified its source", map[string]any{"src": short(keep)})
	}
	if err != nil {
		r.Violate(engine, idx, fmt.Sprintf("roundtrip-err-len%d", len(src)), fmt.Sprintf("AppendDecode rejects the encoder's own output: %v", err), map[string]any{"src_hex": fmt.Sprintf("%x", trunc(src, 256))})
	} else {
		if !bytes.HasPrefix(dec, prefix) || !bytes.Equal(dec[len(prefix):], src) {
			r.Violate(engine, idx, fmt.Sprintf("roundtrip-len%d", len(src)), fmt.Sprintf("decode(encode(x)) != x for %d-byte input (first diff %d)", len(src), firstDiff(dec[min(len(prefix), len(dec)):], src)), map[string]any{"src_hex": fmt.Sprintf("%x", trunc(src, 256))})
		}
		if ml := uu.MaxDecodedLen(body); ml < len(src) {
			r.Violate(engine, idx, fmt.Sprintf("maxdecodedlen-len%d", len(src)), fmt.Sprintf("MaxDecodedLen=%d < actual %d", ml, len(src)), nil)
		}
	}
	pdec, err := pp.Unpack(body)
	if err == nil {
		r.Count("perl_unpack_comparisons", 1)
		if !bytes.Equal(pdec, src) {
			r.Violate(engine, idx, fmt.Sprintf("perl-unpack-len%d", len(src)), fmt.Sprintf("perl unpack('u') of our encoding != input for %d-byte input", len(src)), map[string]any{"src_hex": fmt.Sprintf("%x", trunc(src, 256))})
		}
	}
}

func trunc(b []byte, n int) []byte {
	if len(b) > n {
		return b[:n]
	}
	return b
}

func fills(r *mon.Run) {
	pp, err := mon.NewPerlPacker()
	if err != nil {
		r.Inconclusive("perl oracle unavailable: " + err.Error())
		return
	}
	defer pp.Close()
	rng := r.Rng("fills", 0)
	idx := 0
	pats := []func(n int) []byte{
		func(n int) []byte { return make([]byte, n) },
		func(n int) []byte { return bytes.Repeat([]byte{0xff}, n) },
		func(n int) []byte { return bytes.Repeat([]byte{0x60}, n) },
		func(n int) []byte { return bytes.Repeat([]byte{0x20}, n) },
		func(n int) []byte { b := make([]byte, n); fillRand(rng, b); return b },
	}
	// every final-line fill after 0, 1 and 2 full lines
	for full := 0; full <= 2; full++ {
		for fill := 0; fill <= 45; fill++ {
			for _, p := range pats {
				if r.Want("fills", idx) {
					checkOne(r, pp, "fills", idx, p(full*45+fill), nil)
				}
				idx++
			}
		}
	}
	r.Count("fill_cases", int64(idx))
	// every total length 0..4096 with random contents, with a dst prefix
	for n := 0; n <= 4096; n++ {
		if r.Want("fills", idx) {
			b := make([]byte, n)
			fillRand(rng, b)
			checkOne(r, pp, "fills", idx, b, []byte("PREFIX\x00\xff"))
		}
		idx++
	}
	r.Count("length_cases", 4097)
	r.Sample("fill", map[string]any{"len": 46, "pattern": "zeros", "encoded": string(refEncode(make([]byte, 46)))})
}

func fillRand(rng *rand.Rand, b []byte) {
	for i := range b {
		b[i] = byte(rng.Uint32())
	}
}

func random(r *mon.Run) {
	pp, err := mon.NewPerlPacker()
	if err != nil {
		r.Inconclusive("perl oracle unavailable: " + err.Error())
		return
	}
	defer pp.Close()
	n := r.N(400, 6000)
	for i := 0; i < n; i++ {
		if !r.Want("random", i) {
			continue
		}
		rng := r.Rng("random", i)
		var ln int
		switch rng.IntN(6) {
		case 0:
			ln = rng.IntN(200)
		case 1:
			ln = 45*rng.IntN(400) + rng.IntN(3) - 1
		case 2:
			ln = 3*rng.IntN(5000) + rng.IntN(3) - 1
		case 3:
			ln = rng.IntN(1 << 16)
		case 4:
			ln = (1 << 20) - rng.IntN(100)
		default:
			ln = rng.IntN(1 << 20)
		}
		if ln < 0 {
			ln = 0
		}
		if !r.Thorough() && ln > 1<<18 && i%8 != 0 {
			ln >>= 3
		}
		b := make([]byte, ln)
		switch rng.IntN(6) {
		case 0: // all zero: backtick path
		case 1:
			for j := range b {
				b[j] = 0x60
			}
		case 2: // few distinct values, many zero sextets
			vals := []byte{0, 0, 0x01, 0x04, 0x10, 0x40, 0xfc, 0x03}
			for j := range b {
				b[j] = vals[rng.IntN(len(vals))]
			}
		case 3: // text-like
			for j := range b {
				b[j] = byte(32 + rng.IntN(95))
			}
		default:
			fillRand(rng, b)
		}
		var prefix []byte
		if rng.IntN(2) == 0 {
			prefix = make([]byte, rng.IntN(64))
			fillRand(rng, prefix)
		}
		checkOne(r, pp, "random", i, b, prefix)
		if i < 2 {
			r.Sample("random", map[string]any{"len": ln, "head_hex": fmt.Sprintf("%x", trunc(b, 24))})
		}
	}
}

// ---- decoder totality -----------------------------------------------------

func mutate(rng *rand.Rand, enc []byte) []byte {
	b := bytes.Clone(enc)
	nm := 1 + rng.IntN(4)
	for k := 0; k < nm; k++ {
		if len(b) == 0 {
			b = append(b, byte(rng.Uint32()))
			continue
		}
		p := rng.IntN(len(b))
		switch rng.IntN(12) {
		case 0: // flip a bit
			b[p] ^= 1 << rng.IntN(8)
		case 1: // delete
			b = append(b[:p], b[p+1:]...)
		case 2: // insert random byte
			b = append(b[:p], append([]byte{byte(rng.Uint32())}, b[p:]...)...)
		case 3: // CRLF everywhere
			b = bytes.ReplaceAll(b, []byte("\n"), []byte("\r\n"))
		case 4: // blank line
			b = append(b[:p], append([]byte("\n\n"), b[p:]...)...)
		case 5: // over-long length byte at a line start
			if i := bytes.LastIndexByte(b[:p], '\n'); i+1 < len(b) {
				b[i+1] = byte(0x5e + rng.IntN(0xa2))
			}
		case 6: // char outside the alphabet
			b[p] = []byte{0x1f, 0x7f, 0x80, 0xff, 0x00, 0x61, 0x7e}[rng.IntN(7)]
		case 7: // lone CR
			b = append(b[:p], append([]byte("\r"), b[p:]...)...)
		case 8: // drop the final newline
			b = bytes.TrimSuffix(b, []byte("\n"))
		case 9: // length byte below the offset
			if i := bytes.LastIndexByte(b[:p], '\n'); i+1 < len(b) {
				b[i+1] = byte(rng.IntN(32))
			}
		case 10: // truncate
			b = b[:p]
		case 11: // backticks
			b[p] = '`'
		}
	}
	return b
}

func genDecoderInput(rng *rand.Rand) []byte {
	switch rng.IntN(10) {
	case 0: // pure random bytes
		b := make([]byte, rng.IntN(300))
		fillRand(rng, b)
		return b
	case 1: // random printable text with newlines
		b := make([]byte, rng.IntN(400))
		for i := range b {
			if rng.IntN(20) == 0 {
				b[i] = '\n'
			} else {
				b[i] = byte(32 + rng.IntN(96))
			}
		}
		return b
	case 3: // many well-formed lines with over-long length bytes (up to 0xFF = 223 bytes per line)
		var b []byte
		nl := 1 + rng.IntN(120)
		lb := byte(0x4e + rng.IntN(0xb2))
		for k := 0; k < nl; k++ {
			if rng.IntN(4) == 0 {
				lb = byte(0x21 + rng.IntN(0xdf))
			}
			nDec := int(lb) - 32
			b = append(b, lb)
			for j := 0; j < (nDec+2)/3*4; j++ {
				b = append(b, byte(32+rng.IntN(65)))
			}
			if rng.IntN(6) == 0 {
				b = append(b, '\r')
			}
			b = append(b, '\n')
		}
		return b
	case 2: // lines with every possible length byte
		var b []byte
		for k := 0; k < 1+rng.IntN(4); k++ {
			b = append(b, byte(rng.IntN(256)))
			n := rng.IntN(90)
			for j := 0; j < n; j++ {
				b = append(b, byte(32+rng.IntN(65)))
			}
			b = append(b, '\n')
		}
		return b
	default:
		src := make([]byte, rng.IntN(200))
		fillRand(rng, src)
		return mutate(rng, refEncode(src))
	}
}

// checkDecode runs the decoder on one input; returns a violation key or "".
func checkDecode(in []byte, prefix []byte) (key, what string) {
	keep := bytes.Clone(in)
	dst := append(make([]byte, 0, len(prefix)+64), prefix...)
	// spare capacity canary
	spare := dst[len(dst):cap(dst)]
	for i := range spare {
		spare[i] = 0xA5
	}
	var out []byte
	var err error
	func() {
		defer func() {
			if p := recover(); p != nil {
				key, what = "decoder-panic", fmt.Sprintf("AppendDecode panicked: %v", p)
			}
		}()
		out, err = uu.AppendDecode(dst, in)
	}()
	if key != "" {
		return
	}
	if !bytes.Equal(in, keep) {
		return "decode-modifies-src", "AppendDecode modified its source"
	}
	if !bytes.Equal(dst[:len(prefix)], prefix) {
		return "decode-modifies-dst", "AppendDecode modified the existing contents of dst"
	}
	if err == nil {
		if !bytes.HasPrefix(out, prefix) {
			return "decode-prefix", "AppendDecode result does not start with dst's existing contents"
		}
		if ml := uu.MaxDecodedLen(in); ml < len(out)-len(prefix) {
			return "maxdecodedlen", fmt.Sprintf("MaxDecodedLen=%d < actual %d", ml, len(out)-len(prefix))
		}
		return
	}
	var de uu.DecodeError
	if !errors.As(err, &de) {
		return "decode-error-not-located", fmt.Sprintf("error is not a DecodeError: %T %v", err, err)
	}
	lines := bytes.Split(in, []byte{'\n'})
	if de.Line < 0 || de.Line >= len(lines) {
		return "decode-error-line-out-of-range", fmt.Sprintf("DecodeError.Line=%d outside input with %d lines", de.Line, len(lines))
	}
	if de.Offset < 0 || de.Offset > len(lines[de.Line]) {
		return "decode-error-offset-out-of-range", fmt.Sprintf("DecodeError.Offset=%d outside line %d of length %d", de.Offset, de.Line, len(lines[de.Line]))
	}
	if de.Err == nil || strings.TrimSpace(de.Error()) == "" {
		return "decode-error-empty", "DecodeError without a cause"
	}
	return
}

// ChildDecoder runs one batch of decoder inputs; the current input is written
// to disk before each call so that a fatal error leaves a witness.
func ChildDecoder(args []string) int {
	r, dump, rest := mon.ChildRun(args, Level)
	var batch, n int
	fmt.Sscan(rest[0], &batch)
	fmt.Sscan(rest[1], &n)
	witness := rest[2]
	debug.SetPanicOnFault(true)
	errKinds := map[string]int64{}
	for i := 0; i < n; i++ {
		idx := batch*n + i
		if !r.Want("decoder", idx) {
			continue
		}
		rng := r.Rng("decoder", idx)
		in := genDecoderInput(rng)
		if i%64 == 0 { // a fatal error loses at most the last 64; the index replays them
			os.WriteFile(witness, []byte(fmt.Sprintf("%d\n%x\n", idx, in)), 0o644)
		}
		var prefix []byte
		if rng.IntN(3) == 0 {
			prefix = []byte("keep-me")
		}
		r.Eval(1)
		r.Count("decoder_inputs", 1)
		if len(in) > 0 {
			r.Distinct(string(in))
		}
		key, what := checkDecode(in, prefix)
		if key != "" {
			r.Violate("decoder", idx, key, what, map[string]any{"input_hex": fmt.Sprintf("%x", in), "input": short(in)})
		}
		_, err := uu.AppendDecode(nil, in)
		if err == nil {
			errKinds["accepted"]++
		} else {
			var de uu.DecodeError
			if errors.As(err, &de) {
				errKinds[fmt.Sprintf("%T", de.Err)]++
			}
		}
		if idx < 3 {
			r.Sample("decoder", map[string]any{"input": short(in), "result": fmt.Sprint(err)})
		}
	}
	for k, v := range errKinds {
		r.Count("decoder_outcome:"+k, v)
	}
	if err := r.DumpChild(dump); err != nil {
		fmt.Fprintln(os.Stderr, err)
		return 2
	}
	return 0
}

func decoder(r *mon.Run) {
	total := r.N(100_000, 4_000_000)
	per := r.N(12_500, 125_000)
	nb := total / per
	mon.Parallel(nb, runtime.NumCPU(), func(b int) {
		w := fmt.Sprintf("%s/decoder-witness-%d", r.Work, b)
		res, err := r.RunChild("", "c15decoder", 20*time.Minute, fmt.Sprint(b), fmt.Sprint(per), w)
		if err != nil {
			wb, _ := os.ReadFile(w)
			r.Violate("decoder", b*per, "decoder-fatal", fmt.Sprintf("decoder batch %d died (status %d, signal %q, timeout %v): last logged input index/hex: %s; stderr: %s", b, res.Status, res.Signal, res.TimedOut, trunc(wb, 400), tail(res.Stderr)), nil)
		}
	})
}

// ---- purity with guard pages -------------------------------------------------

var pageSize = os.Getpagesize()

// guarded returns a slice of length n whose last byte is the last byte
// before a PROT_NONE page; call seal to make the data read-only.
type guardBuf struct {
	mem  []byte
	data []byte
}

func newGuard(n int) (*guardBuf, error) {
	pages := (n+pageSize-1)/pageSize + 1
	if n == 0 {
		pages = 2
	}
	mem, err := syscall.Mmap(-1, 0, pages*pageSize, syscall.PROT_READ|syscall.PROT_WRITE, syscall.MAP_ANON|syscall.MAP_PRIVATE)
	if err != nil {
		return nil, err
	}
	if err := syscall.Mprotect(mem[(pages-1)*pageSize:], syscall.PROT_NONE); err != nil {
		return nil, err
	}
	end := (pages - 1) * pageSize
	return &guardBuf{mem: mem, data: mem[end-n : end : end]}, nil
}
func (g *guardBuf) seal() {
	syscall.Mprotect(g.mem[:len(g.mem)-pageSize], syscall.PROT_READ)
}
func (g *guardBuf) free() { syscall.Munmap(g.mem) }

func guardedCall(f func()) (fault string) {
	defer func() {
		if p := recover(); p != nil {
			fault = fmt.Sprint(p)
		}
	}()
	f()
	return ""
}

func purity(r *mon.Run) {
	old := debug.SetPanicOnFault(true)
	defer debug.SetPanicOnFault(old)
	n := r.N(1500, 20000)
	for i := 0; i < n; i++ {
		if !r.Want("purity", i) {
			continue
		}
		rng := r.Rng("purity", i)
		ln := rng.IntN(200)
		if rng.IntN(5) == 0 {
			ln = rng.IntN(5000)
		}
		if i < 140 {
			ln = i
		}
		src := make([]byte, ln)
		if rng.IntN(4) != 0 {
			fillRand(rng, src)
		}
		r.Eval(1)
		if ln > 0 {
			r.Distinct("purity:" + string(src))
		}
		want := refEncode(src)

		// (a) src read-only, ending at a PROT_NONE page; dst read-only with exact capacity.
		gs, err := newGuard(ln)
		if err != nil {
			r.Inconclusive("mmap: " + err.Error())
			return
		}
		copy(gs.data, src)
		gs.seal()
		prefix := []byte("dst-prefix")
		gd, _ := newGuard(len(prefix))
		copy(gd.data, prefix)
		gd.seal()
		var enc []byte
		if f := guardedCall(func() { enc = uu.AppendEncode(gd.data, gs.data) }); f != "" {
			r.Violate("purity", i, "encode-guard-fault", fmt.Sprintf("AppendEncode touched memory it must not (read-only src/dst or beyond src) for len %d: %s", ln, f), map[string]any{"src_hex": fmt.Sprintf("%x", trunc(src, 128))})
		} else if !bytes.Equal(enc, append(bytes.Clone(prefix), want...)) {
			r.Violate("purity", i, fmt.Sprintf("encode-guarded-result-len%d", ln), "AppendEncode result wrong with guarded arguments", map[string]any{"src_hex": fmt.Sprintf("%x", trunc(src, 128))})
		}
		r.Count("guarded_calls", 1)
		// decoder on a read-only, guard-terminated encoding
		ge, _ := newGuard(len(want))
		copy(ge.data, want)
		ge.seal()
		var dec []byte
		var derr error
		if f := guardedCall(func() { dec, derr = uu.AppendDecode(gd.data, ge.data) }); f != "" {
			r.Violate("purity", i, "decode-guard-fault", fmt.Sprintf("AppendDecode touched memory it must not for len %d: %s", ln, f), map[string]any{"src_hex": fmt.Sprintf("%x", trunc(src, 128))})
		} else if derr != nil || !bytes.Equal(dec, append(bytes.Clone(prefix), src...)) {
			r.Violate("purity", i, fmt.Sprintf("decode-guarded-result-len%d", ln), fmt.Sprintf("AppendDecode result wrong with guarded arguments: %v", derr), nil)
		}
		r.Count("guarded_calls", 1)
		// mutated encodings on guard-terminated read-only memory (over-read / in-place sanitising)
		mut := mutate(rng, want)
		gm, _ := newGuard(len(mut))
		copy(gm.data, mut)
		gm.seal()
		if f := guardedCall(func() { uu.AppendDecode(nil, gm.data) }); f != "" {
			r.Violate("purity", i, "decode-guard-fault", fmt.Sprintf("AppendDecode touched memory it must not on a mutated encoding: %s", f), map[string]any{"input_hex": fmt.Sprintf("%x", trunc(mut, 256))})
		}
		r.Count("guarded_calls", 1)
		gm.free()
		ge.free()
		gd.free()
		gs.free()

		// (b) canaries: src with spare capacity, dst with spare capacity.
		big := make([]byte, ln+64)
		copy(big, src)
		for j := ln; j < len(big); j++ {
			big[j] = 0xC3
		}
		dbig := make([]byte, 16, 16+len(want)+64)
		copy(dbig, "0123456789abcdef")
		enc2 := uu.AppendEncode(dbig, big[:ln])
		for j := ln; j < len(big); j++ {
			if big[j] != 0xC3 {
				r.Violate("purity", i, "encode-writes-src-spare-capacity", fmt.Sprintf("AppendEncode wrote into the spare capacity of src (len %d, offset %d)", ln, j), nil)
				break
			}
		}
		if !bytes.Equal(big[:ln], src) {
			r.Violate("purity", i, "encode-modifies-src", "AppendEncode modified its source", nil)
		}
		if string(enc2[:16]) != "0123456789abcdef" || !bytes.Equal(enc2[16:], want) {
			r.Violate("purity", i, "encode-prefix", "AppendEncode changed dst's existing contents or produced a wrong result with spare capacity", nil)
		}
		// the same for the decoder: encoded text with spare capacity
		ebig := make([]byte, len(want)+64)
		copy(ebig, want)
		for j := len(want); j < len(ebig); j++ {
			ebig[j] = 0xC3
		}
		dec2, err := uu.AppendDecode(dbig, ebig[:len(want)])
		if err != nil || string(dec2[:16]) != "0123456789abcdef" || !bytes.Equal(dec2[16:], src) {
			r.Violate("purity", i, "decode-prefix", fmt.Sprintf("AppendDecode with spare capacity: err=%v", err), nil)
		}
		for j := len(want); j < len(ebig); j++ {
			if ebig[j] != 0xC3 {
				r.Violate("purity", i, "decode-writes-src-spare-capacity", "AppendDecode wrote into the spare capacity of src", nil)
				break
			}
		}
		if !bytes.Equal(ebig[:len(want)], want) {
			r.Violate("purity", i, "decode-modifies-src", "AppendDecode modified its source", nil)
		}
		// (c) aliasing: dst is the unused tail of src's array
		arr := make([]byte, ln, ln+len(want)+8)
		copy(arr, src)
		enc3 := uu.AppendEncode(arr[ln:ln], arr[:ln])
		if !bytes.Equal(arr[:ln], src) || !bytes.Equal(enc3, want) {
			r.Violate("purity", i, "encode-alias", "AppendEncode with dst = tail of src's array modified src or produced a wrong result", nil)
		}
		r.Count("canary_calls", 3)
	}
	r.Sample("purity", "src mapped PROT_READ ending at a PROT_NONE page; dst prefix mapped PROT_READ with exact capacity; canary 0xC3 in spare capacity of src; dst aliasing the tail of src's array")
}

#!/usr/bin/env python3
"""tools/seedtable.py [reseed-output.txt]  -> markdown table of /verif/seeded for DESIGN.md §9.
Columns come from each seed's agent-meta.json (title, needs_to_manifest) and meta.json (last confirmation);
if a reseed output file is given, its CAUGHT/MISSED verdict and keys (current harness) take precedence."""
import json,os,re,sys
S='/verif/seeded'
re_run={}
if len(sys.argv)>1:
    for l in open(sys.argv[1]):
        m=re.match(r'(\S+) (CAUGHT|MISSED|NOAPPLY|OBSOLETE|BROKEN\S*)(?: rc=\d+)? ?(?:keys=\[(.*)\])?',l.strip())
        if m: re_run[m.group(1)]=(m.group(2),m.group(3) or '')
def cut(s,n):
    s=' '.join(s.split())
    return s if len(s)<=n else s[:n-1]+'…'
print('| seed | change | needs to manifest | caught by (quick) | keys |')
print('|---|---|---|---|---|')
for d in sorted(os.listdir(S)):
    try: am=json.load(open(f'{S}/{d}/agent-meta.json'))
    except Exception: am={}
    m=json.load(open(f'{S}/{d}/meta.json'))
    res=m['confirmed_by_me']['results']
    caught=[l for l in res if l.startswith('caught_by:')]
    cb=caught[-1].split(':',1)[1].strip() if caught else ''
    keys=''
    for l in res:
        k=re.search(r'keys=\[(.*?)\]',l)
        if k and 'rc=1' in l: keys=k.group(1)
    if d in re_run:
        v,k=re_run[d]
        cb=d.split('-')[0] if v=='CAUGHT' else f'**{v}**'
        if v=='CAUGHT' and os.path.exists(f'{S}/{d}/checks'): cb=open(f'{S}/{d}/checks').read().split()[0]+' (another property\'s check)'
        if v=='OBSOLETE': cb,keys='no longer a defect: '+cut(open(f'{S}/{d}/obsolete').read(),90),'(was: '+keys+')'
        if k: keys=k
    keys=', '.join(x for x in keys.split(',') if x)
    print(f"| {d} | {cut(am.get('title') or m.get('breaks',''),110)} | {cut(am.get('needs_to_manifest') or m.get('needs_to_manifest',''),120)} | {cb or '**none**'} | {cut(keys,110)} |")

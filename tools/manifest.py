#!/usr/bin/env python3
"""Regenerates /verif/MANIFEST.json from the table below and validates it."""
import json, os, sys

BASELINE_OFF = json.load(open('/root/.vp/BASELINE.json'))['cmd']

# id -> (engine, category, technique, text, note, design_ref)
CHECKS = {
 'C12': ('ptymon', 'exploration',
   'runtime monitoring of the real -race binary with -one-shell on a pty: a connect(2) poller logging every result change, phases delimited by observed notices, token traffic across the listener close, exit status; bounded-progress with retry-alone',
   'Held on 10 (quick) / 150 (thorough) runs over arrival order (i then o, o then i, /io, real curl|sh) x preceding junk (refused, duplicate, half-attached-then-dead attempts, refused requests that stay connected) x in-flight traffic x ending: every connect succeeded before the shell was complete, connects were refused after the close notice and never succeeded again, >= 200 tokens each way crossed the close intact, no callback help after the shell had gone, the process exited 0 after at most one entered line.',
   'Close latency bound 20 s and exit bound 30 s with one retry alone; a freed port may be taken by another process (recognised by its certificate).',
   'DESIGN.md C12'),

 'C09': ('httpmon', 'exploration',
   'runtime monitoring of raw hostile request targets against generated trees with canary files outside the root; token lookup oracle, reference route table, marker-delimited operator notice windows; real curl --path-as-is samples; -race',
   'Held on 6 (quick) / 60 (thorough) generated trees x 3 configurations (directory, single file, unset) x 400 / 3 000 raw targets each (plain/encoded/double-encoded dot segments, encoded slashes, backslashes, empty segments, NUL/control bytes, 8 KiB paths, absolute-form, *, authority-form, methods, ranges): no response ever carried a canary token, every 2xx body was exactly an in-tree file, range or listing, single-file and unset modes behaved as stated, /c, /i/x, /o/x and /io kept their meaning although such files exist, every file request was reported.',
   'No symlinks inside the tree; HEAD 2xx bodies are only token-scanned; curl hops judged with the weak expectations only.',
   'DESIGN.md C09'),

 'C05': ('ptymon+httpmon', 'exploration',
   'runtime monitoring of the real -race binary on a pty and of hsrv in-process over many configurations: every advertised fingerprint compared with the pin computed by an independent TLS client from the presented leaf; real curl --pinnedpubkey with the advertised and a one-bit-altered pin; bound port read from /proc',
   'Held on 16 (quick) / 200 (thorough) configurations of the real binary (9 listen-address forms x callback addresses x file serving x IPv6 one-liners x custom template x cache forms incl. restart sequences) and 80 / 750 in-process servers: every sha256// text on the terminal (start-up, file and re-printed one-liners) and in /c scripts equalled the served pin, curl accepted it and rejected the altered pin with exit 90, one-liners named the bound port unless the user gave one.',
   'Callback host names that do not resolve here are exercised through curl --connect-to; link-local one-liners likewise.',
   'DESIGN.md C05'),
 'C07': ('httpmon', 'exploration',
   'reference-function monitor for the callback address over all 16 presence combinations of c2 parameter/header/Host/SNI on IPv4, IPv6 and port-443 listeners with fixed IDNA known-answer vectors; ID uniqueness monitor; generated scripts executed by /bin/sh with real curl; template-file histories',
   'Held on 450 (quick) / 8 100 (thorough) precedence requests, 3 000 / 50 000 IDs (no repeat, safe alphabet), 8 / 80 scripts actually run to an attached shell with a command round trip, and 160 / 2 000 template edit/remove/recreate steps each reflected by the very next response (errors answered with an error status and an empty body).',
   'Unicode hosts can only be sent through an absolute-form target; only fixed IDNA vectors; ambiguous query-vs-body precedence accepts either value.',
   'DESIGN.md C07'),
 'C14': ('libmon', 'exploration',
   'runtime monitoring of CmdShell with generated child programs (position-coded stdout/stderr alphabets), scripted slow/late consumers and stdin feeders; ground truth from the child\'s own report file',
   'Held on 120 (quick) / 3 000 (thorough) cases over output sizes 0 to 4 pipe buffers per descriptor, write sizes, pauses, exit codes, immediate/lingering exit, consumers that start only after the child exited or read slowly, and binary stdin up to 256 KiB: every byte arrived per descriptor in order before EOF, the stream ended with EOF, non-zero exits were reported.',
   'No grand-children holding the pipes; relative order between stdout and stderr not judged; Linux /proc used to detect child exit.',
   'DESIGN.md C14'),
 'C20': ('ptymon', 'fault_enumeration',
   'fault enumeration on the real -race binary: 24 start-up faults (no TTY, listen address, cache, log file, Ctrl+I source; some as uid 65534) singly and in cross-class pairs x informational flags x TTY/no TTY; exit status, output scan for crash signatures and cause keywords, termios before/after on the pty slave',
   'Held on all single faults x {TTY, no TTY}, singles x informational flags and 40 sampled pairs (quick) / all 173 cross-class pairs x flags x TTY modes, 1 450 runs (thorough), plus Ctrl+C / Ctrl+D / -one-shell clean exits: non-zero status with a message naming the cause, never a panic or stack trace, terminal mode restored after every self-initiated exit.',
   'Cause naming is judged at keyword level; a TTY whose /dev/tty is unusable cannot be produced here; uid faults need root.',
   'DESIGN.md C20'),

 'C10': ('httpmon', 'exploration',
   'runtime monitoring of operator notices: hsrv in-process on real TLS in seven configurations, raw requests carrying printf-looking text, marker-delimited notice windows scanned for formatter artefacts and for the verbatim client text; -race',
   'Held on 2 800 (quick) / 42 000 (thorough) requests over path, raw query, c2 parameter/header, Host, undecodable escapes, /i and /o IDs and refusals naming two IDs, on the file (200/404/500), script (ok, template read/parse/exec error, c2 error), in, out and refusal paths: no notice contained %! and one notice always carried the client text character for character.',
   'Only call sites that a request or a configured path can reach are exercised; a static scan of format-position arguments would be a different technique and is not used.',
   'DESIGN.md C10'),
 'C11': ('brokermon+ptymon', 'exploration',
   'offline checker over recorded event logs: every Write of a real slog JSON handler paired one-to-one and in order with deliveries recorded at harness writers and the operator channel; session reconstruction from the -log file of the real -race binary; -race',
   'Held on 300 (quick) / 6 000 (thorough) in-process sessions with hostile data (quotes, control bytes, U+2028, invalid UTF-8, JSON look-alikes), failing writes/flushes, cancellations with output in flight, and refused attempts, plus 3 / 30 pty sessions of the real binary whose log file alone reproduced connections, refusals, input lines and output bytes.',
   'Expected record data = delivered bytes with each invalid UTF-8 byte replaced by U+FFFD; binary output compared by concatenation.',
   'DESIGN.md C11'),
 'C13': ('libmon', 'exploration',
   'runtime monitoring of simpleshell.Go in child processes against per-call TLS servers that record handshakes and application bytes; oracle = pure function of the call\'s own (chain, fingerprint); snapshot monitor on http.DefaultClient/DefaultTransport; -race as primary monitor for the process-global',
   'Held on every (key x 30 fingerprint spellings) pair for 8 (quick) / 64 (thorough) keys, 80 / 3 000 call sequences and 40 / 1 000 concurrent sets mixing pinned-right, pinned-wrong, malformed and un-pinned calls, with matches at chain position 0/1/2/absent and CA-valid/invalid servers for the un-pinned path: no application byte ever reached a non-matching server, malformed fingerprints never dialled, defaults untouched.',
   'Key material is fresh per run; fingerprints containing CR/LF accept either outcome; http:// C2 URLs (no TLS at all) are outside the quantifier and only recorded as an observation.',
   'DESIGN.md C13'),
 'C16': ('libmon', 'exploration',
   'differential runtime monitoring: generated Perl programs run by perl directly and through the generated shell function under dash and bash; static recovery of the embedded text via a live perl unpack; coverage monitors for uu alphabet and length residues',
   'Held on 400 (quick) / 8 000 (thorough) generated programs x 2 shells: identical stdout and exit status, die message and line number preserved, embedded text equals the trimmed script with leading comments blanked, lead comments and function name as stated. Seven recorded findings (END blocks, global destruction, CR handling after here-docs and in literals, use utf8 with non-UTF-8 bytes, __END__ followed by a colon, empty script) are pinned by fixed probes.',
   'Generator excludes the classes behind the recorded findings and $0/__FILE__/caller/__DATA__; stderr compared only for the die clause.',
   'DESIGN.md C16'),
 'C19': ('ptymon', 'exploration',
   'real-time trace monitor on the real -race binary under a pty: token sends and terminal observations stamped by one monotonic clock, inequalities that stay sound under load',
   'Held on 8 (quick) / 32 (thorough) sessions with 2 / 6 mute cycles each (flood, burst, 1.5 s gaps, gap above 2 s, Ctrl+O before output, repeated Ctrl+O, status lines while muted, sessions without Ctrl+O): no suppressed token was followed by an un-mute announcement within 2 s, no token appeared while the mute must have been in force, status lines always appeared, output after the announcement was displayed, mute ended within the progress bound.',
   'Real time only: gaps within 0.4 s of the 2 s boundary are not generated; breadth comes from parallel processes.',
   'DESIGN.md C19'),

 'C18': ('libmon', 'exploration',
   'runtime monitoring of the generated tab_list function executed by real dash and bash with echo replaced by an argument-recording stub; canary files as injection monitors; reference row set written from the statement',
   'Held on 600 (quick) / 15 000 (thorough) payloads x dash, bash and bash --posix: every echo call received exactly one word, no canary file appeared, no stderr, status 0, rows sorted bytewise and equal to the reference set plus the self row whenever the text is free of the tab-writer control bytes. A deliberately unsafe function is run first to prove the canaries and the stub can fire.',
   'Ends at the word handed to echo (what a real echo prints is not observed); non-interactive shells only; fidelity only for texts without TAB/VT/FF/0xFF and without non-space Unicode whitespace at field edges.',
   'DESIGN.md C18'),

 'C01': ('brokermon', 'exploration',
   'gate-scheduled histories through the verif hook judged online against a one-sided reference model, I/O probes at hooked state; free-running stress with porcupine linearizability check; -race',
   'Held on every executed history: ~230 directed scenarios plus 6 000 (quick) / 60 000 (thorough) random histories and, in thorough, all 88 740 histories of length <= 4 over a 17-symbol alphabet; every admission decision was taken in a harness-chosen serialisation order and compared with the must-refuse rules, and probes confirmed that I/O flows exactly to the streams the decisions admitted. Exploration, not proof: histories longer than the generated ones and schedules inside b.mu are not covered.',
   'Trusts the three hook call sites (outside b.mu), the model written from the statement (bk/exec.go MustRefuse), and treats attempts overlapping Do cancellation as either-way.',
   'DESIGN.md C01'),
 'C02': ('brokermon', 'exploration',
   'recorded Write/Flush event log of harness-owned transport writers replayed offline against the entered line sequence; fault injection at the k-th write/flush; lock-step producer for flush-per-line; -race',
   'Held on 800 (quick) / 20 000 (thorough) series of 1-8 successive shells with 10-70 hostile lines each, all four writer kinds, failing/short writes and failing flushes, lines queued while no shell is attached; the global event order shows exact bytes, no gap/duplicate/reorder, one flush per line, and only lines whose own write failed are missing.',
   'A line whose flush failed counts as written. Real-TCP loss after a successful server-side write is outside what a server-boundary oracle can see.',
   'DESIGN.md C02'),
 'C03': ('brokermon', 'exploration',
   'scripted transport reader with position-coded bytes; offline prefix/equality checker over the recorded operator-channel log delimited by a marker line; stalled-terminal schedules; -race',
   'Held on 2 500 (quick) / 40 000 (thorough) read scripts (sizes 0-10000 incl. buffer-boundary sizes, zero-length reads, data returned with the terminal error, five terminal errors, five channel capacities, stalling terminal, concurrent input): displayed bytes were always a prefix of the sent bytes, complete at every natural end and never after the close notice.',
   'Ctrl+O muting is judged in C19; the pty rendering path is sampled separately.',
   'DESIGN.md C03'),
 'C04': ('brokermon', 'exploration',
   'gate-scheduled shell generations with marker-delimited notice/event counting, I/O probes after every generation, goroutine-dump structural invariant in serial child processes, shutdown ordering with streams parked at the release hook; -race',
   'Held on the full cross product of 186 generation shapes (endings x first-to-end x life point x uni/bidir x both-at-once) plus 30 series of 40 (quick) / 400 series of 200 (thorough) random generations per run: one gone notice and one disconnected event per generation, ready/connected exactly at full attachment, peer ended without traffic, no goroutine left inside internal/iobroker after transports closed, next shell accepted and working, Do never returned while a stream was attached.',
   'Leak scan counts goroutines with a frame in internal/iobroker other than Do/processEvents; events around shutdown are not asserted.',
   'DESIGN.md C04'),
 'C06': ('brokermon', 'exploration',
   'gate scheduler: all admission orders of the halves of 2-3 (thorough: 4) simultaneous /io requests on six base states, probe of who owns the attached halves; -race',
   'Held on every one of the 24 / 720 (and 40 320 in thorough) admission orders x 6 base states: at no point did halves of different clients, or an /io half and a unidirectional stream, form one shell. Complete for n <= 3 (n <= 4 thorough) in gate mode; free-running interleavings inside b.mu are not enumerated.',
   'Trusts that parking at the admit hook only selects among orders the two racing goroutines of ConnectInOut can produce themselves.',
   'DESIGN.md C06'),
 'C08': ('libmon', 'fault_enumeration',
   'fault enumeration of the cache file (every truncation length, every single-byte damage) with an independent TLS client as ground truth; restart histories in-process and through the real -race binary on a pty; lstat monitors on file and directories',
   'Held on every prefix length and every byte position x {flip, newline, delete} of a fresh cache file, composed two-cache damages, permission checks under umask 000/022 at depth 1-4, and restart histories (in-process and real binary): a start either failed or served the original public key, the file was never rewritten (bytes, inode, mtime, ctime), file and created directories are owner-only.',
   'Identity is the public key the client parsed (canonical PKIX), not the raw SPKI bytes; torn writes are modelled as prefixes; the cache file is freshly random every run.',
   'DESIGN.md C08'),
 'C17': ('libmon', 'exploration',
   'reference-model monitor: generated directory trees and filter tables, Converter.From compared byte for byte with a 40-line reference, diagnosis by tagging filters; sequential/concurrent determinism under -race; samples through the real binary and the shellfuncsfile tool',
   'Held on 500 (quick) / 10 000 (thorough) generated trees (dot-files, lock links, dangling links, symlinks, nested directories, glob characters, empty and newline-less files) with default and user-modified overlapping filter tables, single-file and multi-source modes, 3 sequential + 4 concurrent calls each, and real-binary samples.',
   'Per-file Perl conversion and the list function are taken from the library (judged by C16/C18); dangling links with matching non-dot names are not generated.',
   'DESIGN.md C17'),

 'C15': ('libmon', 'exploration',
   'differential runtime monitoring against a live perl oracle; exhaustive enumeration of the 2^24 groups; mprotect guard pages and canaries as memory monitors; -race/checkptr',
   'Held on every one of the 2^24 three-byte groups, every final-line fill and every length 0..4096 (complete enumerations, compared byte for byte with perl pack/unpack), on sampled random/adversarial inputs up to 1 MiB, on 10^5 (quick) / 4*10^6 (thorough) hostile decoder inputs run under recover in child processes, and with source/destination mapped read-only next to PROT_NONE pages. Sampling, not proof, outside the enumerated sub-spaces.',
   'Trusts perl 5.36 as reference, the kernel mprotect/SetPanicOnFault mechanism, and the harness reference encoder (20 lines). Decoder totality is sampled.',
   'DESIGN.md C15'),
}

# Engines and dimensions added after the seeded-change rounds (DESIGN.md §8/§9); appended to the texts above.
ADDENDA = {
 'C01': 'Also: split /io admission with the refused side parked at the done hook; numeric and long IDs (common prefixes of 64/255/1024/4096 bytes) through the real mux; refused uploads with a declared Content-Length must be answered at once. Engine aged (refused latecomers after the owner has been attached through many lines / a wait symbol in the script); uploads refused with a declared length must be answered without their body. Engine lockq (one stream held inside the broker under its lock by a stalled operator notice while the halves of an /io request and the last streams of the previous shell queue on the lock in chosen orders). Engine patience (refusals of 14 kinds decided while the operator\'s terminal is stalled for 4-31 s, 65 s thorough).',
 'C02': 'Also: engine pty (the operator pastes more lines than the 1024-deep queue holds before a shell attaches, on the real binary) and engine tab (Tab/Ctrl+I inserts of 20 B - 1 MiB around every power of two, with and without a shell attached, delivered as exactly the payload plus one newline). Engine tabq (Tab inserts pressed while the held-line queue is full, overlapping inserts, shells that hang up inside an insert: an insert is one contiguous entry). Engine gate (240 admit/release/done schedules of a newcomer\'s halves against a leaving shell with lines entered between all steps: a held line must not be given to an already-refused /io request). Engine silence (attached shells during 5-31 s of operator silence at broker, in-process HTTP and real-binary level: not a byte, not a flush).',
 'C03': 'Also: long streams with hundreds of zero-length reads; engine ptyb on the real binary: byte-exact terminal comparison over endpoint x transport (chunked / declared Content-Length) x eager/patient client x ending (mid multibyte sequence, non-UTF-8 tail, dropped), and a terminal whose file description was made non-blocking. Engine quiet (a burst of 2048*k +/- bytes must be on the terminal without further traffic arriving). Engines patience and patpty (the operator channel / the real binary\'s pty stalls 4-31 s mid-stream, then resumes: shown == sent).',
 'C04': 'Also: intruders inside the tear-down window; engine window (a context that parks inside admission while the program shuts down); a third, slow small-buffer event listener in every second series and a paused listener across >1100 shells; a stream end left exactly behind a full queue before the cancellation; HTTP uploads with a declared length whose client stalls. Engine lockwait (shutdown while the broker is held on a stalled operator notice and newcomers queue behind it); stream end left behind an exactly full queue with the reader back in Read. Every second intruder inside the tear-down window presents the dying shell\'s own ID. Engine patience (tear-downs of 20 kinds behind a terminal stalled 6-31 s); engine longlife (one broker serving 12,000 / 120,000 shells in series, IDs up to 64 KiB).',
 'C05': 'Also: cache replaced under a running listener with SNI and non-SNI handshakes, two listeners racing for one cache path, listeners on port 443 (reported as not explored where 443 cannot be bound), per-run flag order, cache files holding certificate chains of mixed key types written by the harness. Bare and zoned IPv6 callback addresses on 443 listeners (an unbracketed IPv6 literal in a printed URL counts as naming the wrong port); engine chain. Internationalised callback addresses with a non-ASCII last label. Client TLS capabilities (19 restricted Go client profiles and 17 real-curl restrictions - curves, TLS versions, single suites - each first tried on a plain listener of the harness\'s own).',
 'C06': 'Also: numeric unidirectional IDs; engine replay (internal /io keys observed at the admission hook in ONE broker presented as callback IDs to a FRESH broker); free-running porcupine stress; HTTP race trials whose tokens carry the trial number. Engine selfend (an admitted half of /io ends by itself - EOF, read error, write error - before its sibling is admitted). Engines many (70-3000 requests decided during one held tear-down / half-attached / attached state) and skew (50 ms-5 s of real time between the two admissions of an /io request and around the end of a tear-down; log-order oracle).',
 'C07': 'Also: template edits that keep size and mtime, template paths that are or pass through symlinks, port-less IPv6 Host headers, listener port classes (ends in 443, starts with 443, ...; unbindable classes reported as not explored). Engine carry (big templates, clients leaving mid-script and templates failing half-way: the next request\'s script is byte-exact its own rendering; GOMAXPROCS 1 and all CPUs, in child processes). Engines hostcurl (the documented one-liner on hosts whose .curlrc restricts curl: tls-max, tlsv1.3, curves, single suites, http1.0/1.1 ...) and tlsclient (restricted Go clients fetching /c).',
 'C08': 'Also: cache files created by a library caller with other certificate lifespans (already expired ... 100 years); engine crash: REAL interrupted writes (child processes killed or failed after exactly p bytes by RLIMIT_FSIZE for every p, optional strace fault injection) followed by later starts on whatever was left behind. Engine foreign (foreign files, links and directories planted at and next to the cache path before a generating start); restart histories with failing starts in between must leave an intact cache alone. Engines pathshape / binpathshape (cache paths of 256-3900 bytes: deep, long components up to NAME_MAX, relative forms, dot / dot-dot / doubled-slash spellings).',
 'C09': 'Also: shell endpoint x method x request-body matrix on trees holding same-named files (no File requested notice, no file content for a shell endpoint path); -serve-files-from naming a symlink / symlink chain / dangling link; clients that half-close or reset right after sending; parallel downloads and replacement of the served file. Engine special (canaries named index.html, the shell endpoint names, in-tree names... waiting outside the root for every traversal spelling); engine live (tree changed while served). Slow downloaders (8-64 MiB files, clients pausing 4-31 s or trickling, Range requests).',
 'C10': 'Also: link-local (zoned) client addresses; engine broker: refusal tour in gate mode through every refusal reason with printf-looking IDs. Engines xerr and rst (shells ending with transport errors whose text repeats a zoned client address; connections reset on a link-local listener). Client text containing literal fmt complaints (exact-rendering oracle, observed behind opshell); client text of 64-900 KiB.',
 'C11': 'Also: engine refusals (every refusal reason leaves exactly one error record); engine logfile (several runs on one -log file, foreign content, cuts while running, -log vs CURLREVSHELL_LOG); engine aborts (clients resetting at every stage: anything the operator is told about has a record); request-shape matrix for the streaming endpoints. Engine bighead (stream requests with heads up to 1 MiB - long IDs, queries, many or fat header lines - accepted and refused, on the in-process server and the real binary).',
 'C12': 'Also: junk that stays connected (refused chunked and fixed-length uploads, requests with an unasked-for unfinished body on /c, files and refused /i), shells staying 17-22 s (35/65 s thorough), shell output uploaded with a declared length, GOMAXPROCS=1 runs, log targets (file, /dev/null, fifo, environment). Engine late (connections opened before the shell completes that speak only later); shells that connect and finish at once; uploads with Expect: 100-continue. Requests left hanging in the middle (form POST to /c, OPTIONS *, a stalled 64 MiB download), a crowd of 330-390 lingering keep-alive clients, a line entered only 23-31 s after the shell has gone, shells that are over at once (engine atonce), Expect: 100-continue uploads (engine upload).',
 'C13': 'Also: same-server call sequences in one process, URL scheme case, a process-wide TLS session cache installed by the caller. Process configurations (http.DefaultClient with its own Transport / Jar / CheckRedirect / Timeout installed by the embedding process, compared reflectively before and after every call); certificates sharing a subject key identifier; C2 host names with a trailing dot or non-ASCII labels. Listeners judge only connections made by sockets of their own process (positive/negative control per child); a call reset below the listener is repeated once. Engine long (chains of 4-641 certificates, pins at every depth).',
 'C14': 'Also: deaths by signal; engine e2e (simpleshell.Go against a lagging HTTPS server, HTTP/1.1 and HTTP/2); engine ctx (exec.CommandContext / Cancel / WaitDelay variants, cancellation at scripted points, consumer stalls up to 6.5 s quick / 11 s thorough; an error end without a caller WaitDelay is a violation). Engines leave and leave-e2e (the consumer of Output() closes the reader early - directly or because the HTTP server went away - while the child still runs; every way of ending afterwards); stalls up to 21.5 s after a command that ended by itself. Engine input (61 magic byte sequences - BOMs, NUL, ^D, CR/LF, ESC, IAC ... - leading, ending, alone in and split across chunks of 11 kinds of input reader).',
 'C15': 'Also: many well-formed over-long lines (length bytes up to 0xFF) in the decoder generator.',
 'C17': 'Also: engine carryOver (a failed or earlier conversion must not influence the next: poisoned directory, same-size same-mtime replacement); byte-order marks, blanks, NUL, ^Z at the very start or end of files. Sources under /proc and other files whose size is reported as 0. Dangling links whose resolution fails with ENOTDIR / ENAMETOOLONG / ELOOP. Engines history (one Converter through 3-8 From / SetFilter add / replace / delete steps) and meta (permission bits, ownership, times, hard links, sparseness must not change the payload).',
 'C18': 'Also: payload lines over 64 KiB (tagged and untagged) with rows after them; names that extend another name by a control byte. Payload lines of 1 MiB+1 ... 4 MiB+1. Engines many (1,000-200,000 TABDOC lines, name widths varying between regions, duplicates far apart, one-table alignment) and keep (earlier results must stay intact after later and concurrent calls).',
 'C19': 'Also: engines lockorder (Ctrl+O during un-muted output with the pause hook), repeat (repeated Ctrl+O must not extend the mute), stalled (pty not drained while a 1-2 MB Ctrl+J message is written during a mute), backlog (status lines queued behind a flood on a lagging terminal when Ctrl+O arrives), byte-exact content (continuation bytes, Latin-1, split multibyte characters) right after the un-muting announcement.',
 'C20': 'Also: privileged ports and default-location cache faults as uid 65534; every fault again with an openable log file configured; exits with Tab insertions pending (queue full, stalled shell); controlling terminal with redirected standard descriptors; Ctrl+I sources with unusable members. Engines signal and sigfault (SIGCONT/SIGSTOP/SIGTSTP/SIGWINCH and real window changes delivered during the session, then every way of leaving). Engines badtty (12 kinds of /dev/tty that is there but unusable, in a private mount namespace), long / longpair / longtwin (operands of 300-3900 bytes: the cause words of the short-operand twin must still be in the message) and aged (clean exits after sessions of 11-31 s).',
 'C16': 'Also: Dotted and dashed function names, header lines of 1-8 KiB. Engine names (152 base names that mean something to the shell - builtins, reserved words, utilities, variables - under the shells that accept them as function names; names the wrapper text itself uses run contained as uid 64999 with RLIMIT_NPROC 64).',
}

NOT_YET = {}

def main():
    props = [json.loads(l)['id'] for l in open('/verif/properties.jsonl')]
    m = {
      'version': 1,
      'setup_cmd': 'sh bin/setup',
      'hooks': {
        'guard': 'verif',
        'enable': 'go build -race -tags verif (the harness module replaces github.com/magisterquis/curlrevshell with /repo and compiles its working tree with the tag on)',
        'baseline_off_cmd': BASELINE_OFF,
        'source_commits': open('/verif/MANIFEST.hooks').read().split() if os.path.exists('/verif/MANIFEST.hooks') else [],
        'add_only': True,
      },
      'engines': [
        {'name': 'brokermon', 'path': 'harness/props', 'serves_properties': ['C01','C02','C03','C04','C06','C11'], 'kind_free_text': 'iobroker.Broker in-process under -race with harness-owned writers/readers/slog handler, gate scheduler on the verif hook, offline checkers incl. porcupine'},
        {'name': 'httpmon', 'path': 'harness/props', 'serves_properties': ['C02','C05','C07','C09','C10','C11'], 'kind_free_text': 'hsrv.Server in-process on a real TLS listener, raw crypto/tls clients and real curl'},
        {'name': 'ptymon', 'path': 'harness/props', 'serves_properties': ['C03','C05','C08','C11','C12','C19','C20'], 'kind_free_text': 'the real -race binary as session leader on a fresh pty with fake shells over raw TLS and real curl|sh'},
        {'name': 'libmon', 'path': 'harness/props', 'serves_properties': ['C08','C13','C14','C15','C16','C17','C18'], 'kind_free_text': 'library packages in-process plus perl/dash/bash/curl reference processes'},
      ],
      'checks': [],
      'not_applicable': [],
      'notes': 'All checks: bin/vcheck <id> quick|thorough; VERIF_SEED selects the PRNG streams. Exit 0 held / 1 VIOLATION / 2 inconclusive or broken run (never on the unchanged tree). known-findings.txt lists recorded findings and fixed defects.',
    }
    for p in props:
        if p in CHECKS:
            eng, cat, tech, text, note, ref = CHECKS[p]
            if p in ADDENDA:
                text = text + ' ' + ADDENDA[p]
            m['checks'].append({
              'property_id': p,
              'quick_cmd': f'bin/vcheck {p} quick',
              'thorough_cmd': f'bin/vcheck {p} thorough',
              'evidence_file': f'/verif/evidence/{p}.json',
              'replay_cmd_template': f'bin/vcheck {p} --replay {{path}}',
              'engine': eng,
              'level_claimed': {'category': cat, 'text': text, 'design_ref': ref},
              'level_note': note,
              'technique': tech,
            })
        else:
            m['not_applicable'].append({'property_id': p, 'reason': NOT_YET.get(p, 'check designed (DESIGN.md) but not built yet in this round; not claimed until its monitor runs clean')})
    json.dump(m, open('/verif/MANIFEST.json','w'), indent=1)
    open('/verif/MANIFEST.json','a').write('\n')
    try:
        import jsonschema
        jsonschema.validate(m, json.load(open('/root/.vp/MANIFEST.schema.json')))
        print('MANIFEST.json valid;', len(m['checks']), 'checks,', len(m['not_applicable']), 'not claimed')
    except ImportError:
        print('jsonschema not available; not validated')

main()

#!/usr/bin/env python3
"""Regenerates /verif/MANIFEST.json from the table below and validates it."""
import json, os, sys

BASELINE_OFF = json.load(open('/root/.vp/BASELINE.json'))['cmd']

# id -> (engine, category, technique, text, note, design_ref)
CHECKS = {
 'C15': ('libmon', 'exploration',
   'differential runtime monitoring against a live perl oracle; exhaustive enumeration of the 2^24 groups; mprotect guard pages and canaries as memory monitors; -race/checkptr',
   'Held on every one of the 2^24 three-byte groups, every final-line fill and every length 0..4096 (complete enumerations, compared byte for byte with perl pack/unpack), on sampled random/adversarial inputs up to 1 MiB, on 10^5 (quick) / 4*10^6 (thorough) hostile decoder inputs run under recover in child processes, and with source/destination mapped read-only next to PROT_NONE pages. Sampling, not proof, outside the enumerated sub-spaces.',
   'Trusts perl 5.36 as reference, the kernel mprotect/SetPanicOnFault mechanism, and the harness reference encoder (20 lines). Decoder totality is sampled.',
   'DESIGN.md C15'),
}

NOT_YET = {}

def main():
    props = [json.loads(l)['id'] for l in open('/verif/properties.jsonl')]
    m = {
      'version': 1,
      'setup_cmd': 'sh bin/setup',
      'hooks': {
        'guard': 'verif',
        'enable': 'go build -race -tags verif (the harness module replaces github.com/magisterquis/curlrevshell with /repo and compiles its working tree with the tag on)',
        'baseline_off_cmd': BASELINE_OFF,
        'source_commits': open('/verif/MANIFEST.hooks').read().split() if os.path.exists('/verif/MANIFEST.hooks') else [],
        'add_only': True,
      },
      'engines': [
        {'name': 'brokermon', 'path': 'harness/props', 'serves_properties': ['C01','C02','C03','C04','C06','C11'], 'kind_free_text': 'iobroker.Broker in-process under -race with harness-owned writers/readers/slog handler, gate scheduler on the verif hook, offline checkers incl. porcupine'},
        {'name': 'httpmon', 'path': 'harness/props', 'serves_properties': ['C02','C05','C07','C09','C10','C11'], 'kind_free_text': 'hsrv.Server in-process on a real TLS listener, raw crypto/tls clients and real curl'},
        {'name': 'ptymon', 'path': 'harness/props', 'serves_properties': ['C03','C05','C08','C11','C12','C19','C20'], 'kind_free_text': 'the real -race binary as session leader on a fresh pty with fake shells over raw TLS and real curl|sh'},
        {'name': 'libmon', 'path': 'harness/props', 'serves_properties': ['C08','C13','C14','C15','C16','C17','C18'], 'kind_free_text': 'library packages in-process plus perl/dash/bash/curl reference processes'},
      ],
      'checks': [],
      'not_applicable': [],
      'notes': 'All checks: bin/vcheck <id> quick|thorough; VERIF_SEED selects the PRNG streams. Exit 0 held / 1 VIOLATION / 2 inconclusive or broken run (never on the unchanged tree). known-findings.txt lists recorded findings and fixed defects.',
    }
    for p in props:
        if p in CHECKS:
            eng, cat, tech, text, note, ref = CHECKS[p]
            m['checks'].append({
              'property_id': p,
              'quick_cmd': f'bin/vcheck {p} quick',
              'thorough_cmd': f'bin/vcheck {p} thorough',
              'evidence_file': f'/verif/evidence/{p}.json',
              'replay_cmd_template': f'bin/vcheck {p} --replay {{path}}',
              'engine': eng,
              'level_claimed': {'category': cat, 'text': text, 'design_ref': ref},
              'level_note': note,
              'technique': tech,
            })
        else:
            m['not_applicable'].append({'property_id': p, 'reason': NOT_YET.get(p, 'check designed (DESIGN.md) but not built yet in this round; not claimed until its monitor runs clean')})
    json.dump(m, open('/verif/MANIFEST.json','w'), indent=1)
    open('/verif/MANIFEST.json','a').write('\n')
    try:
        import jsonschema
        jsonschema.validate(m, json.load(open('/root/.vp/MANIFEST.schema.json')))
        print('MANIFEST.json valid;', len(m['checks']), 'checks,', len(m['not_applicable']), 'not claimed')
    except ImportError:
        print('jsonschema not available; not validated')

main()

#!/bin/sh
# tools/mut.sh <prop> <tier> <patch-file|-e 'sed-expr' file>...
# Runs a check against a scratch worktree of /repo carrying a mutation, using a
# scratch copy of the harness (so /repo and /verif stay untouched).
# usage: tools/mut.sh C01 quick patch.diff     |  tools/mut.sh C01 quick -s 's/a/b/' internal/iobroker/iobroker.go
set -u
PROP=$1; TIER=$2; shift 2
D=$(mktemp -d /tmp/mut.XXXXXX)
git -C /repo worktree add -q --detach "$D/wt" HEAD || exit 3
if [ "$1" = "-p" ]; then
	python3 "$2" "$D/wt" || exit 3
	(cd "$D/wt" && git diff --stat | tail -1)
elif [ "$1" = "-s" ]; then
	sed -i "$2" "$D/wt/$3" || exit 3
	(cd "$D/wt" && git diff --stat | tail -1)
else
	git -C "$D/wt" apply "$1" || { echo "patch does not apply"; git -C /repo worktree remove --force "$D/wt"; rm -rf "$D"; exit 3; }
fi
mkdir -p "$D/v/bin" "$D/v/evidence" "$D/v/replays"
cp -r /verif/harness "$D/v/harness"
cp /verif/bin/vcheck "$D/v/bin/"
cp /verif/known-findings.txt "$D/v/"
sed -i "s#=> /repo#=> $D/wt#" "$D/v/harness/go.mod"
(cd "$D/wt" && GOFLAGS=-mod=mod GOPROXY=off GOSUMDB=off GOTOOLCHAIN=local go build ./... ) || echo "MUTANT DOES NOT BUILD"
if [ "${MUT_SUITE:-0}" = 1 ]; then
	(cd "$D/wt" && GOFLAGS=-mod=mod GOPROXY=off GOSUMDB=off GOTOOLCHAIN=local go test -count=1 ./... 2>&1 | grep -v '^ok' | head -20)
fi
VERIF_DIR="$D/v" VERIF_REPO="$D/wt" timeout -s QUIT ${MUT_TIMEOUT:-900} "$D/v/bin/vcheck" "$PROP" "$TIER" 2>&1 | grep -E '^(VIOLATION|SUMMARY|KNOWN|INCONCLUSIVE|  what|  key)' | head -${MUT_LINES:-12}
echo "exit=$?"
git -C /repo worktree remove --force "$D/wt"
rm -rf "$D"

#!/bin/bash
# tools/seedconfirm.sh <Cxx> <A|B> [props-to-run...]
# Confirms a seeded change produced by a sub-agent (in /tmp/seed-cxx-out): applies it to a scratch
# worktree, builds, vets, runs the suite 3x, runs the demo both ways, then runs the named checks (default: Cxx quick)
# against the changed tree.  Stores it under /verif/seeded/<Cxx>-<letter>/ if confirmed.
set -u
export GOFLAGS=-mod=mod GOPROXY=off GOSUMDB=off GOTOOLCHAIN=local
ID=$1; L=$2; shift 2
CHECKS=${@:-$ID}
n=$(echo $ID | tr 'C' 'c')
OUT=/tmp/${SEED_PREFIX:-seed}-$n-out
[ -f $OUT/$L.diff ] || { echo "no $OUT/$L.diff"; exit 3; }
D=$(mktemp -d /tmp/sc.XXXXXX)
git -C /repo worktree add -q --detach "$D/wt" HEAD || exit 3
res() { echo "$1" | tee -a $D/result.txt; }
# demo on the clean tree
if [ -x $OUT/${L}_demo/run.sh ]; then
  timeout 600 $OUT/${L}_demo/run.sh "$D/wt" >$D/demo-clean.log 2>&1; rc_clean=$?
else rc_clean=-1; fi
(cd "$D/wt" && git status --short | head -3 >> $D/demo-clean.log)
if ! git -C "$D/wt" apply $OUT/$L.diff 2>/dev/null && ! { git -C "$D/wt" apply -3 $OUT/$L.diff >/dev/null 2>&1 && [ -z "$(git -C "$D/wt" diff --name-only --diff-filter=U)" ]; }; then res "patch does not apply"; git -C /repo worktree remove --force "$D/wt"; rm -rf $D; exit 3; fi
(cd "$D/wt" && go build ./... && go vet ./... ) >$D/build.log 2>&1; rc_build=$?
suite=ok
for i in 1 2 3; do (cd "$D/wt" && go test -count=1 ./... ) >$D/suite$i.log 2>&1 || suite=FAIL; done
if [ -x $OUT/${L}_demo/run.sh ]; then
  timeout 600 $OUT/${L}_demo/run.sh "$D/wt" >$D/demo-mut.log 2>&1; rc_mut=$?
else rc_mut=-1; fi
res "build/vet rc=$rc_build suite=$suite demo_clean_rc=$rc_clean demo_changed_rc=$rc_mut"
# run the checks against the changed tree
mkdir -p "$D/v/bin" "$D/v/evidence" "$D/v/replays"; cp -r ${HARNESS_SRC:-/verif/harness} "$D/v/harness"; cp /verif/bin/vcheck "$D/v/bin/"; cp /verif/known-findings.txt "$D/v/"
sed -i "s#=> /repo#=> $D/wt#" "$D/v/harness/go.mod"
caught=""
for c in $CHECKS; do
  VERIF_DIR="$D/v" timeout -s QUIT ${SEED_TIMEOUT:-1500} "$D/v/bin/vcheck" $c ${SEED_TIER:-quick} >$D/check-$c.log 2>&1; rc=$?
  keys=$(grep -E '^  key:' $D/check-$c.log | sort -u | sed 's/^  key: //' | tr '\n' ',' )
  res "check $c rc=$rc keys=[$keys] $(grep -E '^SUMMARY' $D/check-$c.log | cut -c1-150)"
  [ $rc -eq 1 ] && caught="$caught $c"
done
res "caught_by:$caught"
if [ "${SEED_KEEP:-1}" = 1 ] && [ $rc_build -eq 0 ] && [ $suite = ok ] && [ $rc_clean -eq 0 ] && [ $rc_mut -ne 0 ] && [ $rc_mut -ne -1 ]; then
  S=/verif/seeded/$ID-${SEED_TAG:-}$L; rm -rf $S; mkdir -p $S
  cp $OUT/$L.diff $S/patch.diff; cp -r $OUT/${L}_demo $S/demo; cp $OUT/$L.meta.json $S/agent-meta.json 2>/dev/null
  python3 - "$S" "$ID" "$L" "$D/result.txt" <<'PY'
import json,sys
S,ID,L,resf=sys.argv[1:5]
try: am=json.load(open(S+'/agent-meta.json'))
except Exception: am={}
lines=open(resf).read().strip().split('\n')
meta={'property':ID,'variant':L,'breaks':am.get('breaks',''),'needs_to_manifest':am.get('needs_to_manifest',''),'files_changed':am.get('files_changed',[]),
 'confirmed_by_me':{'what_i_ran':'tools/seedconfirm.sh: scratch worktree of /repo HEAD; demo/run.sh on the clean tree (must pass); git apply patch.diff; go build ./... && go vet ./...; go test -count=1 ./... three times; demo/run.sh on the changed tree (must fail); then the listed checks (quick) against the changed tree','results':lines}}
json.dump(meta,open(S+'/meta.json','w'),indent=1)
PY
  res "KEPT as $S"
else
  res "NOT KEPT (needs: build ok, suite ok, demo passes clean, demo fails changed)"
fi
SL=${VERIF_DIR:-/verif}/.work/seedlogs/${SEED_PREFIX:-seed}-$ID-$L; mkdir -p $SL; cp $D/result.txt $D/demo-*.log $D/check-*.log $SL/ 2>/dev/null
git -C /repo worktree remove --force "$D/wt"; rm -rf $D

#!/bin/bash
# tools/reseed.sh [-j N] [seed-dir-names…]
# Regression run over the stored seeded changes: for every /verif/seeded/<name>/ applies patch.diff to a
# scratch worktree of /repo HEAD, builds it, and runs the property's quick check against the changed tree
# with the CURRENT harness.  Prints one line per seed: CAUGHT (rc=1 with a VIOLATION line), MISSED (rc=0),
# BROKEN (anything else), NOAPPLY, or OBSOLETE (the directory has an `obsolete` file: a later fix: commit made the change harmless).  Nothing is stored; scratch trees are removed.
export GOFLAGS=-mod=mod GOPROXY=off GOSUMDB=off GOTOOLCHAIN=local
J=4; [ "$1" = -j ] && { J=$2; shift 2; }
names=${@:-$(ls /verif/seeded)}
one() {
  name=$1; S=/verif/seeded/$name; ID=${name%%-*}
  # a change that no longer breaks the property since a later fix: commit in /repo (reason in the file): not run
  [ -f $S/obsolete ] && { echo "$name OBSOLETE $(head -1 $S/obsolete | cut -c1-200)"; return; }
  [ -f $S/checks ] && ID=$(head -1 $S/checks)   # a change seeded against one property but caught by another property's check
  D=$(mktemp -d /tmp/rs.XXXXXX)
  git -C /repo worktree add -q --detach "$D/wt" HEAD || { echo "$name BROKEN worktree"; rm -rf $D; return; }
  if ! git -C "$D/wt" apply $S/patch.diff 2>/dev/null && ! { git -C "$D/wt" apply -3 $S/patch.diff >/dev/null 2>&1 && [ -z "$(git -C "$D/wt" diff --name-only --diff-filter=U)" ]; }; then echo "$name NOAPPLY"; git -C /repo worktree remove --force "$D/wt"; rm -rf $D; return; fi
  if ! (cd "$D/wt" && go build ./... ) >$D/build.log 2>&1; then echo "$name BROKEN build"; git -C /repo worktree remove --force "$D/wt"; rm -rf $D; return; fi
  mkdir -p "$D/v/bin" "$D/v/evidence" "$D/v/replays"; cp -r ${HARNESS_SRC:-/verif/harness} "$D/v/harness"; cp /verif/bin/vcheck "$D/v/bin/"; cp /verif/known-findings.txt "$D/v/"
  sed -i "s#=> /repo#=> $D/wt#" "$D/v/harness/go.mod"
  VERIF_DIR="$D/v" timeout -s QUIT 1500 "$D/v/bin/vcheck" $ID quick >$D/check.log 2>&1; rc=$?
  keys=$(grep -E '^  key:' $D/check.log | sort -u | sed 's/^  key: //' | tr '\n' ',' | cut -c1-160)
  case $rc in 1) v=CAUGHT;; 0) v=MISSED;; *) v="BROKEN rc=$rc";; esac
  echo "$name $v keys=[$keys]"
  git -C /repo worktree remove --force "$D/wt"; rm -rf $D
}
export -f one
printf '%s\n' $names | xargs -P $J -I{} bash -c 'one {}'

#!/bin/sh
# tools/sweep.sh <tier> <seeds> <parallel> ids...   run checks at several seeds, P at a time; print non-clean results
TIER=$1; SEEDS=$2; PAR=$3; shift 3
V=${VERIF_DIR:-/verif}; export V; mkdir -p $V/.work/sweep
for id in "$@"; do for s in $SEEDS; do echo "$id $s"; done; done | xargs -P "$PAR" -L 1 sh -c '
id=$0; s=$1
out=$V/.work/sweep/$id.$s.log
VERIF_SEED=$s timeout -s QUIT 7200 $V/bin/vcheck $id '"$TIER"' >$out 2>&1
rc=$?
echo "$id seed=$s rc=$rc $(grep -E "^SUMMARY" $out | cut -c1-160)"
if [ $rc -ne 0 ]; then grep -E "^(VIOLATION|  what|  key|INCONCLUSIVE)" $out | cut -c1-300 | head -8; fi
'
